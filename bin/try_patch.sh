#!/bin/bash
# try_patch.sh <patch.diff> <tier> <PROP> [PROP...]
# Applies a seeded change to /repo, runs the given checks, and always restores /repo.
# Prints one line per check: "<PROP> rc=<rc> <first VIOLATION/INCONCLUSIVE line>".
patch=$(realpath "$1"); tier=$2; shift 2
cd "$(dirname "$0")/.."
export VERIF_EVIDENCE_DIR=$PWD/build/evidence-scratch
if ! git -C /repo diff --quiet; then echo "/repo has uncommitted changes; refusing" >&2; exit 2; fi
git -C /repo apply "$patch" || { echo "patch does not apply" >&2; exit 2; }
trap 'git -C /repo checkout -- . ' EXIT
trap 'exit 143' TERM INT HUP
for p in "$@"; do
  t0=$(date +%s)
  out=$(timeout -k 10 ${TRY_TIMEOUT:-1000} bin/check run $p --tier $tier 2>&1)
  rc=$?
  echo "$p rc=$rc $(( $(date +%s) - t0 ))s :: $(echo "$out" | grep -E "^(VIOLATION|INCONCLUSIVE|HARNESS|BUILD)" | cut -c1-260 | head -2 | tr '\n' '|')"
done
