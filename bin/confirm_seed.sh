#!/bin/bash
# confirm_seed.sh <mNN> <PROP>: confirms a sub-agent's change in its scratch worktree /tmp/mut/<mNN>:
# with the change: library builds, existing tests pass (except the 2 baseline failures), demo fails;
# without the change: demo passes. Then copies the deliverables to /verif/seeded/<mNN>/.
id=$1; prop=$2
W=/tmp/mut/$id
cd $W || exit 2
log=/tmp/mut/$id.confirm.log
: > $log
git diff --quiet -- src && { echo "no change applied in $W" | tee -a $log; exit 2; }
git diff -- src > /tmp/mut/$id.patch
cmake --build _b -j16 >> $log 2>&1 || { echo "BUILD FAILED with change" | tee -a $log; exit 1; }
( cd _b && ./draco_tests --gtest_brief=1 > tests.log 2>&1; ./draco_factory_tests >> tests.log 2>&1 )
failed=$(grep -E "^\[  FAILED  \] [A-Za-z]" _b/tests.log | grep -v "TestObjDecodingAll\|TestObjEncodingAll" | sort -u)
if [ -n "$failed" ]; then echo "TESTS FAIL with change: $failed" | tee -a $log; exit 1; fi
echo "tests pass with change" | tee -a $log
bash out/run_demo.sh $W/_b >> $log 2>&1; rc_with=$?
git checkout -q -- src   # (not `git stash`: the stash is shared by all worktrees of a repository)
cmake --build _b -j16 >> $log 2>&1
bash out/run_demo.sh $W/_b >> $log 2>&1; rc_without=$?
git apply /tmp/mut/$id.patch
cmake --build _b -j16 >> $log 2>&1
echo "demo rc with change=$rc_with without=$rc_without" | tee -a $log
if [ $rc_with -ne 0 ] && [ $rc_without -eq 0 ]; then
  mkdir -p /verif/seeded/$id
  cp /tmp/mut/$id.patch /verif/seeded/$id/patch.diff
  cp out/demo.cc out/run_demo.sh out/README.md /verif/seeded/$id/ 2>/dev/null
  tail -5 $log > /verif/seeded/$id/confirm.txt
  echo CONFIRMED
else
  echo NOT-CONFIRMED; exit 1
fi
