#!/usr/bin/env python3
"""Generates MANIFEST.json from bin/props.py (single source of truth)."""
import json, os, subprocess, sys
ROOT = os.path.dirname(os.path.dirname(os.path.abspath(__file__)))
sys.path.insert(0, os.path.join(ROOT, 'bin'))
from props import PROPS, NOT_APPLICABLE
hook_commits = subprocess.run(['git', '-C', '/repo', 'log', '--format=%h %s', '--grep=^verif hooks'],
                              stdout=subprocess.PIPE, text=True).stdout.strip().split('\n')
m = {
    'version': 1,
    'setup_cmd': 'bin/setup.sh',
    'hooks': {
        'guard': 'DRACO_VERIF',
        'enable': 'bin/build.sh <variant> configures /verif/harness (add_subdirectory(/repo)) with -DDRACO_VERIF in CMAKE_CXX_FLAGS; variants plain/asan/tsan/fuzz',
        'baseline_off_cmd': 'bin/baseline_off.sh',
        'source_commits': [c.split(' ')[0] for c in hook_commits if c],
        'add_only': True,
    },
    'engines': [
        {'name': 'harness', 'path': 'harness/', 'serves_properties': sorted(PROPS), 'kind_free_text':
         'C++ harness executables linking the library built from /repo (hooks on): generators, oracles/monitors, forked case isolation, sanitizer variants'},
        {'name': 'driver', 'path': 'bin/check', 'serves_properties': sorted(PROPS), 'kind_free_text':
         'python3 driver: builds variants, shards 16 ways, aggregates monitor records, known-findings matching, evidence'},
    ],
    'checks': [],
    'not_applicable': [{'property_id': k, 'reason': v} for k, v in sorted(NOT_APPLICABLE.items())],
    'notes': 'All checks are runtime monitors/sanitizers over executions of the real code; see DESIGN.md. Seeds via VERIF_SEED.',
}
for pid in sorted(PROPS):
    c = PROPS[pid]
    m['checks'].append({
        'property_id': pid,
        'quick_cmd': 'bin/check run %s --tier quick' % pid,
        'thorough_cmd': 'bin/check run %s --tier thorough' % pid,
        'evidence_file': 'evidence/%s.json' % pid,
        'replay_cmd_template': 'bin/check replay {path}',
        'engine': 'harness',
        'level_claimed': {'category': c['level'], 'text': c['level_text'], 'design_ref': c.get('design_ref', 'DESIGN.md §5 ' + pid)},
        'level_note': c['level_note'],
        'technique': c['technique'],
    })
json.dump(m, open(os.path.join(ROOT, 'MANIFEST.json'), 'w'), indent=1)
print('MANIFEST.json: %d checks, %d not_applicable' % (len(m['checks']), len(m['not_applicable'])))
