#!/bin/bash
# own_mutants.sh <worktree> <tier> [id...]: for every hand-written mutant of tools/own_mutants.py (or the given ids):
#  1. apply seeded/own/<id>.diff in the scratch worktree (a `git worktree` of /repo with a test build in <worktree>/_b),
#     rebuild and run the existing tests there (a mutant that fails them is recorded as "tests-fail" and not tried);
#  2. bin/try_patch.sh on /repo with the checks listed for the mutant.
# Appends one line per (mutant, check) to seeded/own/results.txt.
W=$1; tier=$2; shift 2
cd "$(dirname "$0")/.."
ids="$@"
[ -z "$ids" ] && ids=$(tools/own_mutants.py list | cut -d' ' -f1)
for id in $ids; do
  props=$(tools/own_mutants.py list | grep "^$id " | cut -d'|' -f2)
  git -C $W checkout -q -- src
  git -C $W apply $PWD/seeded/own/$id.diff || { echo "$id patch-does-not-apply" | tee -a seeded/own/results.txt; continue; }
  if ! cmake --build $W/_b -j16 > /tmp/own_build.log 2>&1; then echo "$id build-fails" | tee -a seeded/own/results.txt; git -C $W checkout -q -- src; continue; fi
  ( cd $W/_b && ./draco_tests --gtest_brief=1 > tests.log 2>&1; ./draco_factory_tests >> tests.log 2>&1 )
  failed=$(grep -E "^\[  FAILED  \] [A-Za-z]" $W/_b/tests.log | grep -v "TestObjDecodingAll\|TestObjEncodingAll" | sort -u | head -3 | tr '\n' ' ')
  git -C $W checkout -q -- src
  if [ -n "$failed" ]; then echo "$id tests-fail: $failed" | tee -a seeded/own/results.txt; continue; fi
  bin/try_patch.sh seeded/own/$id.diff $tier $props 2>&1 | grep -E "^C[0-9]+ rc=" | while read l; do echo "$id tests-pass :: $l" | cut -c1-330 | tee -a seeded/own/results.txt; done
done
