"""Per-property run configuration for bin/check."""

PROPS = {}

# Properties not (yet) claimed. Kept current by hand; gen_manifest.py copies it.
NOT_APPLICABLE = {
}

PROPS['C17'] = dict(
    title='Bit, varint and buffer primitives round-trip every value',
    technique='runtime monitoring: round-trip identity + position-accounting oracle over generated primitive programs, ASan/UBSan on exact-size buffers',
    level_text=('Every primitive writer/reader pair is executed on exhaustive 8/16-bit varints, boundary/random 32/64-bit values and '
                'tens of thousands of random mixed byte/bit programs; the monitor compares every decoded value and the reader position with '
                'what was written and ASan/UBSan watch every read past the end. Held on the executions listed in the evidence, not a proof.'),
    level_note='Trusts gcc ASan/UBSan to flag out-of-buffer reads on exact-size heap copies; values beyond the sampled 32/64-bit ones are not covered.',
    level='exploration',
    rule=('case 0-2: exhaustive varint round trip of all 8/16-bit values (signed+unsigned); cases 3-15: boundary '
          '(2^k+-2, complements) + biased random 32/64-bit varints; other cases: a random program of 1..24 sections '
          '(scalars of 10 types, varints of 8 types, bit sequences with/without stored size, RAns/AdaptiveRAns/Direct/'
          'Folded/Symbol bit coder blocks with every bias) encoded into one buffer, decoded from an exact-size heap copy '
          'under ASan+UBSan, then read past the end, from 3 truncations and over-decoded. Non-trivial = buffer holds >1 byte; '
          'distinct = hash of the encoded bytes.'),
    runs=[dict(variant='asan', harness='c17_primitives', cases=dict(quick=30000, thorough=1500000))],
    min_nontrivial=1000,
    require_counters={'varint_exhaustive/*': 4 * 1, 'past_end_probes': 100, 'truncated_decodes': 100, 'ops/*': 1000},
    exhaustive_counter=None,
    assumptions=['ASan red zones detect only adjacent out-of-bounds accesses',
                 'SymbolBitDecoder is excluded from truncation/over-read probes (caller contract, not reachable from a decode entry point)'],
)

PROPS['C16'] = dict(
    title='Prediction-correction transforms are exactly invertible for any prediction',
    technique='runtime monitoring: inverse-identity and correction-interval oracle over exhaustive small domains and boundary-biased samples; UBSan/ASan on the header-only transforms',
    level='exploration',
    level_text=('Runs the real encoding and decoding transforms (instantiated from /repo headers) on every (min,max,orig,pred) tuple of all wrap ranges '
                'of width <= 40 inside [-50,50] (plus int32 extremes as predictions), on every pair of canonical octahedral coordinates for q=2..5 '
                '(q=6 in the thorough tier), and on boundary-biased random tuples for 32-bit wrap ranges (at INT_MIN/INT_MAX, widest allowed) and q=7..30. '
                'The monitor checks decode(encode)=identity and that each correction lies in the announced interval, under ASan+UBSan.'),
    level_note='Exhaustive only for the small domains named; 32-bit ranges and q>=7 are sampled. Canonical inputs come from an independent re-statement of the canonicalisation rule which is cross-checked against the library.',
    rule=('cases 0..4140: one wrap range [min,min+w], min in -50..50, w in 0..40, all orig x all pred in a +-3w window plus int32 extremes; next cases: one (q, pred row) '
          'of the canonical octahedral grid, all canonical origs; remaining cases alternate 3000 (thorough 20000) random tuples of one random 32-bit wrap range / '
          'one q in 7..30. Non-trivial = at least one tuple checked; distinct = hash of the case descriptor (range / q,row / q,rng).'),
    runs=[dict(variant='asan', harness='c16_transforms', cases=dict(quick=4141 + 3 + 7 + 15 + 31 + 6000, thorough=4141 + 3 + 7 + 15 + 31 + 63 + 60000))],
    min_nontrivial=4000,
    require_counters={'wrap_small_ranges': 4141, 'octa_exhaustive_rows/q=5': 31, 'wrap_random_ranges/*near-int-min': 50,
                      'wrap_random_ranges/*near-int-max': 50, 'wrap_random_ranges/huge*': 50, 'octa_sampled_cases/q=30': 10},
    exhaustive_counter=None,
    assumptions=['int32 arithmetic of the target (x86-64, two\'s complement)'],
)

PROPS['C08'] = dict(
    title='Symbol entropy coding is lossless and self-delimiting',
    technique='runtime monitoring: round-trip identity + sentinel-position oracle over generated symbol arrays, ASan/UBSan',
    level='exploration',
    level_text=('EncodeSymbols/DecodeSymbols of the tree under test are run on generated arrays (10 distribution families incl. single outliers up to 2^32-1, '
                '2^18+-1 distinct symbols, equal-count tables that make the probability normalisation over/undershoot), 1..6 components, all compression '
                'levels, forced tagged/raw; the monitor demands array equality, the sentinel right after the block, and a justified reason for every encoder refusal.'),
    level_note='Sampled, not exhaustive. Forced raw scheme is only driven with values < 2^20 (its table is O(max value) by design). Trusts ASan/UBSan for memory/UB.',
    rule=('one case = one symbol array (distribution, length 1..4000 quick / 1e5 thorough, components, level, forced method drawn from the case PRNG) encoded after a prefix byte, '
          'followed by a 4-byte sentinel, decoded from an exact-size heap copy. Non-trivial = encoder accepted and >= 1 symbol; distinct = hash of the produced block.'),
    runs=[dict(variant='asan', harness='c08_symbols', cases=dict(quick=12000, thorough=400000))],
    min_nontrivial=3000,
    require_counters={'scheme/tagged': 500, 'scheme/raw': 500, 'class/outlier/*': 50, 'class/equal_counts/*': 100, 'encoder_refused/*': 1},
    assumptions=['caller contract: num_values is a multiple of num_components'],
)

PROPS['C13'] = dict(
    title='The corner table built from any triangle list is a consistent manifold structure',
    technique='runtime monitoring: structural invariant checker at the quiescent point after CornerTable::Create (exhaustive small lists + biased random lists), ASan/UBSan',
    level='exploration',
    level_text=('CornerTable::Create of the tree under test is run on every list of <= 3 triangles over 5 vertex ids (1 968 875 lists; thorough adds all 244 140 625 '
                'lists of 4 triangles) and on random lists of up to 400 triangles biased to multiply-shared edges, bow-ties, repeats, mirrored and degenerate faces; '
                'an independent ~120-line checker then walks the table: opposite is a symmetric pairing over a shared oppositely oriented edge (input ids and split ids), '
                'every fan walk from the representative corner terminates and visits exactly the corners mapped to the vertex, vertex parents reproduce the input ids, '
                'degenerate faces are unlinked, counters agree with a recount. A third of the random cases build the table from generated meshes (CreateCornerTableFromPositionAttribute / FromAllAttributes) and check '
                'MeshAttributeCornerTable on top: seams symmetric and exactly where attribute values differ across an edge, opposite suppressed across seams, one attribute value per attribute vertex, fan walks terminate.'),
    level_note='Exhaustive only for the stated small domain (evidence key exhaustive); larger lists are sampled. Step-bounded fan walks replace a hang oracle.',
    rule=('cases 0..15624: prefix (t1,t2) of triangles over ids 0..4: lists [t1] (if t2=0), [t1,t2], [t1,t2,t3] for all t3; thorough: cases 15625..31249: all [t1,t2,t3,t4]; '
          'remaining cases: one random list. Non-trivial = Create returned a table that was walked completely; distinct = hash of prefix / of the face list.'),
    runs=[dict(variant='asan', harness='c13_corner_table', cases=dict(quick=15625 + 30000, thorough=2 * 15625 + 400000))],
    min_nontrivial=15625,
    require_counters={'exhaustive_lists_le3': 1968875, 'random_lists': 1000, 'mesh_tables/position': 3000, 'mesh_tables/all-attributes': 3000, 'attribute_tables/with-seams': 1000, 'attribute_tables/without-seams': 500},
    exhaustive_counter='exhaustive_lists_le3',
    exhaustive_expected=dict(quick=1968875, thorough=1968875),
    exhaustive_scope='all lists of <= 3 triangles over vertex ids 0..4 (thorough: also all lists of 4 triangles, counter exhaustive_lists_eq4); the random lists are a sample on top',
    assumptions=['vertex ids limited to 0..4 in the exhaustive block'],
)

_GEN_RULE = ('one case = (generated geometry, generated option vector): topology family (grid, cylinder, torus, subdivided octahedron, tetrahedra, fan, Moebius strip, soup, strip; '
             'mutations: holes, non-manifold fins, bow-tie, duplicated / mirrored / degenerate faces, shuffled faces, isolated points, unused entries, duplicated points) in size classes '
             '0 / 1 / 2-12 / 13-200 / 201-3000 faces (point clouds: 0..4440 points), exactly one POSITION (float32 or integer) plus 0-4 NORMAL/COLOR/TEX_COORD/GENERIC attributes '
             '(1-8 components, int8..uint32/float32, per-vertex / per-corner with seam probability 0,0.05,0.5,1 / per-face), Encoder or ExpertEncoder, method, Edgebreaker sub-method, '
             'speeds 0-10, per-attribute quantization 1-30 bits, forced prediction scheme, built-in compression on/off, split-on-seams. ')

PROPS['C01'] = dict(
    title='Encode/decode round trip reproduces the geometry exactly (modulo quantization)',
    technique='runtime monitoring: canonical-multiset round-trip oracle with an independent reference quantizer over generated geometries x option vectors; ASan/UBSan slice',
    level='exploration',
    level_text=('Every generated (geometry, options) pair is encoded and decoded with the tree under test; an oracle written against the public accessors only compares the attribute set by unique id and the '
                'canonical form (ordered for sequential methods, multiset for Edgebreaker/kd-tree with exactly the permitted omissions), where quantized attributes are first mapped through an '
                'independent re-statement of the declared quantizer (octahedral normals: the library tool box), and requires the stream to be consumed exactly. Encoder refusals are legal and histogrammed; '
                'decoder-side path events show which coders were reached.'),
    level_note=('Sampled input/option space. The octahedral reference uses the library tool box (C07 checks it independently). Constrained multi-parallelogram is kept away from >18-bit integer images '
                '(its entropy tracker needs O(max residual) memory). Option compress_connectivity is outside the property quantifier and not exercised.'),
    rule=_GEN_RULE + 'Non-trivial = encoder accepted and the decoded geometry has >= 1 point; distinct = hash of the produced stream.',
    runs=[dict(variant='plain', harness='c01_roundtrip', cases=dict(quick=160000, thorough=4000000)),
          dict(variant='asan', harness='c01_roundtrip', tag='asan-slice', cases=dict(quick=16000, thorough=400000), extra=['--slice', 'asan'])],
    min_nontrivial=20000,
    require_counters={'config/edgebreaker': 5000, 'config/mesh-sequential': 2000, 'config/kd-tree': 500, 'config/pc-sequential': 1000,
                      'attribute_mode/uniform-quantized': 5000, 'attribute_mode/octahedral': 500, 'path/prediction/method4-*': 100, 'path/prediction/method5-*': 20,
                      'path/prediction/method6-*': 100, 'path/edgebreaker_traversal_coder/2': 500, 'path/topology_splits/1-3': 100, 'omitted_degenerate_triangles': 100,
                      'encoder_refused/*': 10},
    assumptions=['float32 arithmetic without FMA contraction (x86-64 baseline), reference quantizer mirrors the documented operation order'],
)

PROPS['C09'] = dict(
    title='Reported encoded point/face counts equal what the decoder produces',
    technique='runtime monitoring: encoder-reported counts compared with the decoded geometry over generated geometries x option vectors',
    level='exploration',
    level_text=('With tracking enabled on every case, num_encoded_points()/num_encoded_faces() of both front ends are compared with num_points()/num_faces() of the geometry obtained by decoding '
                'the produced stream, over the C01 generator (seams on interior and boundary vertices, several attributes with different seam sets, non-manifold vertices, degenerate faces, '
                'isolated and duplicated points, split-on-seams on/off).'),
    level_note='Sampled input/option space; the decoded geometry is the oracle.',
    rule=_GEN_RULE + 'Non-trivial = encoder accepted and >= 1 decoded point; distinct = hash of the produced stream.',
    runs=[dict(variant='plain', harness='c01_roundtrip', prop='C09', cases=dict(quick=120000, thorough=3000000))],
    min_nontrivial=20000,
    require_counters={'config/edgebreaker': 5000, 'config/kd-tree': 500, 'frontend/Encoder': 5000, 'frontend/ExpertEncoder': 5000, 'point_count_changed_by_encoding': 500},
    assumptions=[],
)

PROPS['C04'] = dict(
    title='Quantization error is at most half a step',
    technique='runtime monitoring: analytic half-step/box oracle in double precision over tagged round trips (unique uint32 tag per value identifies the original under any reordering)',
    level='exploration',
    level_text=('A float attribute with generated values (uniform, exact rounding ties k+1/2, constant, huge outlier, gaussian, two values; magnitudes 1e-6..1e9, offsets up to 1e7 x range) is quantized to 1..30 bits '
                '(automatic or explicit range) and round-tripped through every method/speed/prediction scheme together with an unquantized uint32 tag attribute; each decoded component is matched to its '
                'original through the tag and checked against |y-x| <= step/2 + A and the box, computed in double precision from the inputs only (A = 2^-21 x magnitude). NaN/Inf inputs must be refused.'),
    level_note='Sampled. The bound is sharp (detects a lost +0.5 or truncation) when step/2 > A, i.e. up to about 19 bits for offset-free data; above that it degrades to a float-precision check, as the property states. Evidence reports the largest observed excess in units of A (calibration: < 0.5).',
    rule=('one case = (topology or point set, value style, components 1-4, bits, auto/explicit range, option vector). Non-trivial = encoder accepted and >= 1 decoded value compared; distinct = hash of the stream.'),
    runs=[dict(variant='plain', harness='c04_quant_bound', cases=dict(quick=60000, thorough=1500000)),
          dict(variant='asan', harness='c04_quant_bound', tag='asan-slice', cases=dict(quick=4000, thorough=100000))],
    min_nontrivial=10000,
    require_counters={'config/edgebreaker': 3000, 'config/kd-tree': 1000, 'config/mesh-sequential': 1000, 'config/pc-sequential': 500, 'sharpness/sharp': 5000,
                      'range/explicit': 3000, 'style/grid-ties': 1000, 'nan_inf_refused': 100, 'values_checked': 1000000},
    assumptions=['float allowance A = 2^-21 * max(R, |min|, |max|) (5 rounded float32 operations)'],
)

PROPS['C12'] = dict(
    title='Explicit quantization maps equal coordinates to equal decoded values',
    technique='runtime monitoring: relational oracle over two independent encodes sharing coordinates + bit-exact grid membership through an independent reference dequantizer',
    level='exploration',
    level_text=('Two different geometries (different topology, method, speed, prediction, other attributes, front end) that share a random subset of coordinates are encoded separately with the same '
                'explicit (origin, range, bits); decoded values are matched through uint32 tags and shared coordinates must decode to bit-identical floats; every decoded value of the first encode must '
                'be bit-equal to fl(fl(k*fl(range/(2^b-1)))+origin_c) for an integer k, tested with an independent dequantizer.'),
    level_note='Sampled. For >= 22 bits k = 2^b is tolerated (float32 rounding of the +0.5 at the top of the box), counted in the evidence.',
    rule='one case = pair of (geometry, options) sharing coordinates. Non-trivial = both encodes accepted and >= 1 shared coordinate compared; distinct = hash of both streams.',
    runs=[dict(variant='plain', harness='c04_quant_bound', prop='C12', cases=dict(quick=50000, thorough=1200000))],
    min_nontrivial=10000,
    require_counters={'pair/edgebreaker-vs-kd-tree': 300, 'pair/kd-tree-vs-edgebreaker': 300, 'pair/mesh-sequential-vs-edgebreaker': 200, 'shared_coordinates_compared': 100000, 'grid_values_checked': 500000},
    assumptions=[],
)

PROPS['C07'] = dict(
    title='Quantized normals decode to unit vectors within a bounded angle',
    technique='runtime monitoring: double-precision angle/unit-length oracle over tagged round trips of generated normals; octahedral range read through a skip-transform decode',
    level='exploration',
    level_text=('Normals (uniform on the sphere; epsilon-neighbourhoods of the axes, of the octahedron edges incl. +-0 components, of the face centres; exact ties of projection grids; lengths 1e-30..1e30; '
                'zero and denormal vectors) are quantized to 2..30 bits and round-tripped through sequential point clouds, sequential and Edgebreaker meshes with difference and geometric-normal prediction '
                '(float, quantized and integer positions; degenerate and flipped triangles); every decoded normal is matched to its input through a uint32 tag and must be finite, of length 1+-1e-6 and within '
                '3*(2/(2^q-2))+2e-6 rad of the input direction (inputs with |x|_1 < 1e-5: finiteness, unit length and range only); the octahedral integers of a skip-transform decode must lie in [0, 2^q-1].'),
    level_note='Sampled. Angle evaluated with atan2(|x cross y|, x.y) in double from the float32 input; no library code in the oracle. Evidence reports the worst observed angle/bound ratio.',
    rule='one case = (topology or point set, normal style, q, per-vertex/per-corner, position type, option vector). Non-trivial = >= 1 normal judged on angle; distinct = hash of the stream.',
    runs=[dict(variant='plain', harness='c07_normals', cases=dict(quick=40000, thorough=1500000)),
          dict(variant='asan', harness='c07_normals', tag='asan-slice', cases=dict(quick=3000, thorough=60000))],
    min_nontrivial=10000,
    require_counters={'config/edgebreaker/geometric-normal': 2000, 'config/edgebreaker/difference': 2000, 'config/mesh-sequential/difference': 2000, 'config/pc-sequential/difference': 2000,
                      'normals_judged': 3000000, 'normals_tiny_input': 1000, 'octahedral_coordinates_checked': 3000000, 'q/2': 500, 'q/30': 500},
    assumptions=[],
)

PROPS['C10'] = dict(
    title='Skipping the attribute transform exposes data that reproduces the normal decode',
    technique='runtime monitoring: metamorphic comparison of an ordinary decode with skip-transform decodes of the same stream, described transform re-applied through the library and an independent dequantizer',
    level='exploration',
    level_text=('For generated streams with at least one quantized float attribute (all methods) and for the 25 legacy testdata streams, the stream is decoded once normally and once per subset S of the attribute types present '
                '(all subsets up to 3 types, sampled beyond): attributes keep position and unique id; skipped quantized attributes must be integer typed with a transform description, and '
                'AttributeQuantizationTransform/AttributeOctahedronTransform::InitFromAttribute + InverseTransformAttribute as well as an independent dequantizer fed with the described parameters must reproduce the '
                'ordinary decode bit-exactly per point; attributes outside S, faces and point count must be identical.'),
    level_note='Integer attributes of a skipped type come back as their int32 portable image without a transform (identity, normalized flag cleared): only numerical equality is demanded for them (the property speaks about quantized attributes); counted in the evidence.',
    rule='one case = one stream (25 legacy files, then generated (geometry, options)) x its skip subsets. Non-trivial = stream decodes; distinct = hash of the stream.',
    runs=[dict(variant='plain', harness='c10_skip_transform', cases=dict(quick=40000, thorough=1000000)),
          dict(variant='asan', harness='c10_skip_transform', tag='asan-slice', cases=dict(quick=3000, thorough=60000))],
    min_nontrivial=10000,
    require_counters={'config/edgebreaker': 3000, 'config/kd-tree': 500, 'config/mesh-sequential': 1000, 'config/pc-sequential': 1000, 'config/*/legacy': 20,
                      'attribute/skipped-quantization': 10000, 'attribute/skipped-octahedral': 1000, 'subsets_checked': 50000},
    assumptions=['same stream decodes to the same attribute and point order in both decodes (C06)'],
)

PROPS['C11'] = dict(
    title='Geometry and attribute metadata survive the round trip',
    technique='runtime monitoring: independent recursive tree comparison over generated metadata trees attached to generated geometries; ASan/UBSan slice',
    level='exploration',
    level_text=('Generated metadata trees (depth 0-8, up to 40 entries per level, int/double/array/string/binary entries of 0..64 KiB, names of length 0,1,254,255,256,300 with arbitrary bytes incl. NUL and >= 0x80, '
                'names reused across levels, 0-5 attribute-metadata blocks with arbitrary unique ids, 0-2 more attached through PointCloud::AddAttributeMetadata(att_id) on the finished geometry) are attached to meshes and point clouds and round-tripped under every encoding method; an independent walk over '
                'entries()/sub_metadatas()/attribute_metadatas() requires identical names, byte-exact values, nesting and attribute ids whenever the encoder reports success; refusals are classified by cause.'),
    level_note='Sampled. Nesting deeper than 8 is outside the property quantifier and not driven.',
    rule='one case = (small geometry, option vector, metadata tree). Non-trivial = encoder accepted and the tree has >= 1 entry / sub-metadata / attribute metadata; distinct = hash of the stream.',
    runs=[dict(variant='plain', harness='c11_metadata', cases=dict(quick=30000, thorough=800000)),
          dict(variant='asan', harness='c11_metadata', tag='asan-slice', cases=dict(quick=3000, thorough=60000))],
    min_nontrivial=8000,
    require_counters={'config/edgebreaker': 1000, 'config/kd-tree': 500, 'entries': 100000, 'sub_metadata': 20000, 'attribute_metadata': 10000, 'empty_names': 1000, 'depth/8': 50,
                      'encoder_refused/Failed to encode metadata./name>255/*': 500, 'encoder_refused/Failed to encode metadata./names<=255/empty-value': 500},
    assumptions=['empty values are driven in the plain variant only (constructing them trips UBSan inside libstdc++ before any Draco coding starts)'],
)

PROPS['C20'] = dict(
    title='Keyframe animations round-trip with frame order preserved',
    technique='runtime monitoring: ordered bit-exact comparison + independent reference quantizer and half-step bound over generated animations; ASan/UBSan slice',
    level='exploration',
    level_text=('Generated animations (1..10^4 frames, thorough 10^5; 0-8 tracks of 1-16 components, int8..uint32/float32, tracks added before or after the timestamps, optional 1-30 bit quantization per float track, '
                'speeds 0-10, built-in compression on/off) are encoded and decoded; the monitor requires the frame count, bit-exact timestamps and unquantized tracks in order (NaN/-0.0 patterns kept), '
                'quantized tracks bit-equal to an independent reference quantizer and inside the C04 half-step bound, each track retrievable with type and component count under the id AddKeyframes returned, '
                'exact stream consumption, and refusal of NaN/Inf in quantized tracks.'),
    level_note='Sampled.',
    rule='one case = one animation + options. Non-trivial = encoder accepted; distinct = hash of the stream.',
    runs=[dict(variant='plain', harness='c20_keyframes', cases=dict(quick=20000, thorough=400000)),
          dict(variant='asan', harness='c20_keyframes', tag='asan-slice', cases=dict(quick=2000, thorough=40000))],
    min_nontrivial=8000,
    require_counters={'track/quantized/dt9': 5000, 'track/exact/dt9': 3000, 'track/exact/dt1': 1000, 'track/exact/dt6': 1000, 'order/keyframes-first': 3000, 'tracks/0': 500, 'tracks/8': 500,
                      'quantized_values_checked': 1000000, 'encoder_refused/nan-inf-in-quantized-track': 100},
    assumptions=[],
)

PROPS['C06'] = dict(
    title='Encoding and decoding are deterministic functions of their inputs',
    technique='runtime monitoring: differential comparison of executions under injected perturbations (allocator poisoning and size jitter, object reuse histories, thread, process/ASLR, trailing bytes)',
    level='exploration',
    level_text=('Each generated (geometry, options) is encoded by a fresh encoder, then again with fresh heap memory poisoned 0x00 / 0xFF / a seed byte and freed memory poisoned, with allocation-size jitter, on another thread, '
                'by an Encoder reused after a different geometry (Reset, buffer already holding bytes) and called twice, by an ExpertEncoder called repeatedly and after Reset, by either front end after an earlier encode with different speed options (final option state equal), and (every 16th case) in a freshly exec\'d '
                'process with ASLR off and on: all outputs must be byte-identical. The stream is decoded under the same heap perturbations, by a Decoder reused after another stream and after a failed decode, on another '
                'thread, and with 1-64 random trailing bytes or a second valid stream appended: ordered 128-bit digests must be identical and remaining_size() must equal the number of appended bytes.'),
    level_note='Sampled inputs and a fixed set of perturbations; a nondeterminism that none of them provokes is not detected. Uninitialised reads that do not reach the output are not reported (no memcheck slice in this round).',
    rule='one case = (geometry, options) x 13 encode executions x 8 decode executions. Non-trivial = encoder accepted and own stream decodes; distinct = hash of the stream.',
    runs=[dict(variant='plain', harness='c06_determinism', cases=dict(quick=24000, thorough=600000))],
    min_nontrivial=8000,
    require_counters={'encode_equal/heap-mode2': 8000, 'encode_equal/heap-mode4': 8000, 'encode_equal/other-thread': 8000, 'encode_equal/reused-encoder-after-reset+appended-buffer': 3000,
                      'encode_equal/expert-encoder-second-call': 3000, 'encode_equal/after-speed-history/expert': 2000, 'encode_equal/after-speed-history/basic': 2000, 'decode_equal/reused-decoder': 8000, 'decode_equal/trailing-bytes': 8000, 'process_equal/aslr-on': 500, 'process_equal/aslr-off': 500,
                      'config/edgebreaker': 3000, 'config/kd-tree': 500},
    assumptions=['glibc malloc; operator new/delete replaced in the harness binary'],
)

PROPS['C05'] = dict(
    title='Existing bitstreams keep decoding to the same geometry, in the same order',
    technique='runtime monitoring: frozen-corpus regression oracle (ordered 128-bit digests recorded at freeze time) + version-rewrite matrix; ASan/UBSan slice',
    level='exploration',
    level_text=('Every stream of a committed corpus - the 25 legacy testdata files (bitstream 1.1 .. 2.3, writers 0.9.0 .. current) and 742 further frozen streams (700 small ones from the current encoder over the C01 generator, 34 larger ones with long, high-entropy symbol sequences, 8 hand-made streams S0xx that reach the decoders of the deprecated prediction methods 2 and 3 and the pre-2.3 kd-tree payloads) (all methods, '
                'sub-methods, speeds, prediction schemes, attribute layouts, metadata) - is decoded through three entry points and its ordered digest (point count, faces in order, per attribute descriptor and values '
                'in point order, metadata tree) must equal the digest recorded when the corpus was frozen; legacy test_nm streams are additionally anchored to testdata/test_nm.obj. For rewritten headers, every '
                '(major, minor) above the supported maximum or with major < 1 must be rejected with Status::UNKNOWN_VERSION; supported pairs must not crash.'),
    level_note=('"Any later change" is covered from the freeze date (2026-10-01, tree with the fix: commits of this round) on; the encoder is not held to the frozen bytes, only the decoder to the corpus. '
                'Corpus regeneration is a deliberate maintenance action (c05_frozen --freeze), never done by a check.'),
    rule=('cases 0..24 legacy files, next 742 frozen files, then one case per (stream, major byte) with all 256 minor bytes (quick: 2 streams, thorough: 8). Non-trivial = stream has a recorded digest and was decoded / '
          'a version block was evaluated; distinct = hash of the stream (and major).'),
    runs=[dict(variant='plain', harness='c05_frozen', cases=dict(quick=25 + 742 + 2 * 256, thorough=25 + 742 + 8 * 256), shards=8),
          dict(variant='asan', harness='c05_frozen', tag='asan-slice', cases=dict(quick=25 + 742 + 2 * 256, thorough=25 + 742 + 8 * 256))],
    min_nontrivial=1400,
    require_counters={'streams/legacy': 50, 'streams/frozen-current-encoder': 1400, 'legacy_anchor_checked': 24, 'version_pairs_rejected': 200000, 'path/version/1.1': 1, 'path/prediction/method4-*': 10,
                      'path/prediction/method5-*': 10, 'path/prediction/method6-*': 10, 'path/kd_level/6': 10, 'path/edgebreaker_traversal_coder/2': 50},
    assumptions=['the recorded digests describe what the streams decoded to at freeze time'],
)

_HOSTILE_RULE = ('cases 0..N-1 enumerate, for every short base stream (quick: 25 legacy + frozen-corpus streams <= 420 bytes, keyframe / metadata / symbol blocks; thorough: <= 3000 bytes), every truncation length, '
                 'every offset x 8 byte patterns (bit0/bit7 flip, 00, FF, +1, -1, 7F, 80), x 6 32-bit patterns, x 4 varint patterns (max 5-byte, max 10-byte, over-long, non-canonical); the remaining cases draw: '
                 'semantic tamper (re-encode one of the small geometries with one traversal symbol / rANS bit / direct bit / symbol / varint / bit-field value replaced through the DRACO_VERIF hook), random multi-site '
                 'corruption (2-8 sites), header rewrites, splices (prefix A + suffix B, duplicated / dropped ranges). Entry points: type-directed decode, DecodeMeshFromBuffer, DecodePointCloudFromBuffer, '
                 'DecodeBufferToGeometry(Mesh*/PointCloud*, also the wrong type), random skip-attribute-transform subsets, KeyframeAnimationDecoder, MetadataDecoder, DecodeSymbols. ')

PROPS['C02'] = dict(
    title='Decoding arbitrary bytes is memory-safe, UB-free and returns a Status',
    technique='sanitizers (ASan+UBSan, fatal) + guard pages / read-only input / input hash + allocation monitor + CPU watchdog over a systematic and semantic corruption engine',
    level='fault_enumeration',
    level_text=('Every case decodes one corrupted input in a forked worker under ASan+UBSan (exact-size heap input) and, in the plain variant, with the input flush against PROT_NONE guard pages and mapped read-only; '
                'the monitors are the sanitizers, the worker exit status (signals, aborts, libstdc++ assertions, uncaught exceptions), an input hash, the CPU-time watchdog with one re-run, and an allocation monitor '
                'that turns over-cap requests into bad_alloc and accepts them only when the request is justified by an element count the stream declared (DRACO_VERIF declared-count events).'),
    level_note=('Enumerates single-site faults completely for the short bases listed in the evidence and samples the rest; a clean sanitizer run is not memory safety (intra-object and far out-of-bounds accesses escape). '
                'Decoder-side code has no UBSan suppressions.'),
    rule=_HOSTILE_RULE + 'Non-trivial = the decoder got past the 11-byte header; distinct = hash of (corrupted bytes, entry point, skip set).',
    runs=[dict(variant='asan', harness='c02_decode_hostile', cases=dict(quick=1, thorough=1), plan_extra=dict(quick=90000, thorough=2000000), cpu_budget=20),
          dict(variant='plain', harness='c02_decode_hostile', tag='guard-pages', cases=dict(quick=1, thorough=1), plan_extra=dict(quick=90000, thorough=2000000), cpu_budget=10)],
    min_nontrivial=100000,
    require_counters={'mutation/truncate': 2 * 6000, 'mutation/byte': 2 * 50000, 'mutation/u32': 2 * 38000, 'mutation/varint': 2 * 25000, 'mutation/tamper-site7': 2 * 2000, 'mutation/tamper-site8': 2 * 800, 'mutation/tamper-site2': 2 * 2000,
                      'mutation/tamper-site5': 2 * 4000, 'mutation/multi-site': 2 * 10000, 'mutation/splice': 2 * 5000, 'mutation/header': 2 * 5000, 'kind/keyframes': 2 * 8000, 'kind/metadata': 2 * 2500, 'kind/symbols': 2 * 4000,
                      'accepted_corrupted_streams': 2 * 50000, 'entry/1': 2 * 8000, 'entry/4': 2 * 8000, 'with_skip_transform': 2 * 20000},
    assumptions=['harness allocation cap: 256 MiB per request, 1 GiB live'],
)

PROPS['C03'] = dict(
    title='A successfully decoded geometry is structurally valid',
    technique='runtime monitoring: structural validator + read-everything pass under ASan on every decode that returns OK over the corruption engine (valid, byte-corrupted and semantically tampered streams)',
    level='fault_enumeration',
    level_text=('Whenever a decode of a (corrupted) input returns OK the geometry is handed to an independent validator before it is destroyed: face indices < num_points, explicit point maps of size num_points mapping '
                'into the value array, buffers large enough for size x stride, stride >= components x type size, valid data type/component count; then every face and every point\'s value in every attribute is read '
                'through GetMappedValue / GetValue / ConvertValue and the attached transform parameters are read, under ASan.'),
    level_note='Same input space as C02; evidence reports how many corrupted streams were accepted (these are the interesting cases).',
    rule=_HOSTILE_RULE + 'Non-trivial = decode returned OK and the validator ran; distinct = hash of (bytes, entry point, skip set).',
    # UBSan is not fatal here: undefined behaviour while decoding is C02's verdict; C03 judges the returned geometry (ASan stays fatal for the read-everything pass).
    runs=[dict(variant='asan', harness='c02_decode_hostile', prop='C03', cases=dict(quick=1, thorough=1), plan_extra=dict(quick=90000, thorough=2000000), cpu_budget=20, ubsan_fatal=False)],
    min_nontrivial=20000,
    require_counters={'accepted_corrupted_streams': 50000, 'decode_ok/geometry/tamper': 5000, 'decode_ok/geometry/bytes': 40000, 'decode_ok/keyframes/bytes': 4000},
    assumptions=[],
)

PROPS['C18'] = dict(
    title='Decoder memory is bounded by stream length and declared element counts',
    technique='runtime monitoring: allocation monitor (every operator new request, live-bytes peak) checked against B = 64 MiB + 2048*len(input) + 256*E(declared counts) over the corruption engine',
    level='fault_enumeration',
    level_text=('Every decode of a corrupted input runs with all operator new requests recorded; the largest single request and the live-bytes peak must stay below B = C0 + K_in*len + K_el*E, where E sums the element '
                'counts the stream declared (points, faces, vertices, symbols, split symbols, points x components per attribute; from DRACO_VERIF events). A violation is keyed by the first Draco frame of the '
                'largest request, so distinct missing guards are distinct findings.'),
    level_note='C0 = 64 MiB covers the fixed-size rANS tables (independent of input; largest peak observed at calibration: 18 MB for a 190-byte corrupted stream), K_in = 2048, K_el = 256 B; the evidence reports the largest observed request/bound and peak/bound ratios (calibration: well below 1 on valid streams).',
    rule=_HOSTILE_RULE + 'Non-trivial = decoder got past the header; distinct = hash of (bytes, entry point, skip set).',
    runs=[dict(variant='plain', harness='c02_decode_hostile', prop='C18', cases=dict(quick=1, thorough=1), plan_extra=dict(quick=90000, thorough=2000000), cpu_budget=10)],
    min_nontrivial=100000,
    require_counters={'mutation/u32': 38000, 'mutation/varint': 25000, 'mutation/tamper-site1': 1000, 'mutation/multi-site': 10000},
    assumptions=['harness allocation cap: 256 MiB per request, 1 GiB live (larger requests are recorded with their size, then refused)'],
)

PROPS['C19'] = dict(
    title='Independent encoder/decoder instances can run concurrently',
    technique='ThreadSanitizer over a multi-threaded stress workload with injected pre-emption points + cross-talk oracle (result under concurrency vs result alone)',
    level='exploration',
    level_text=('Each case builds a pool of 12-64 jobs (encode mesh / point cloud with either front end, decode, decode with skip-transform, keyframe animation encode+decode, OBJ and PLY encode to buffer; own objects and '
                'geometry copies per execution), computes every job\'s result alone, then runs 2/4/8/16 threads from a barrier, each executing jobs in its own random order with sched_yield / microsecond sleeps injected '
                'from the thread_local DRACO_VERIF hooks (at every varint, bit, symbol and path event). Every result must equal the single-threaded one; in the tsan variant every ThreadSanitizer report block written '
                'during the case is a violation (keyed by kind + first Draco frame of both stacks). Evidence lists the job-kind pairs that actually overlapped in time.'),
    level_note='Covers the schedules the stress runs produced, not all interleavings. File I/O factories are not exercised (only ...ToBuffer / ...FromBuffer APIs), as the property states. TSan only understands synchronisation it intercepts; the harness uses std::thread, std::mutex and atomics only.',
    rule='one case = one job pool x thread count x repetition; non-trivial = at least one pair of job executions overlapped in time; distinct = case PRNG state.',
    runs=[dict(variant='tsan', harness='c19_concurrent', cases=dict(quick=320, thorough=12000), extra=['--max-deaths', 4, '--max-violations', 6]),
          dict(variant='plain', harness='c19_concurrent', tag='volume', cases=dict(quick=4000, thorough=150000), extra=['--max-deaths', 20])],
    min_nontrivial=2000,
    require_counters={'threads/16': 200, 'threads/2': 200, 'overlap/encode-mesh+decode': 500, 'overlap/encode-mesh+encode-mesh': 500, 'overlap/decode+decode': 300, 'overlap/keyframes+encode-pc': 0,
                      'overlap/obj-encode+ply-encode': 300, 'overlapping_execution_pairs': 500000, 'tsan_report_blocks': 0, 'job_executions': 200000},
    assumptions=[],
)

PROPS['C14'] = dict(
    title='Mesh-building and clean-up utilities never change what the mesh describes',
    technique='runtime monitoring: before/after canonical-form oracle with independently computed documented removals, dedup post-conditions, independent GPU-rule strip walker; ASan/UBSan',
    level='exploration',
    level_text=('Five workloads: TriangleSoupMeshBuilder (per-corner and per-face attributes, 1-5 attributes, bit patterns +-0.0 / NaN payloads / denormals compared bitwise), PointCloudBuilder with and without dedup (values set per point in either order, or for all points from a packed array, stride 0, or array-of-structs records with a larger byte stride), '
                'DeduplicateAttributeValues / DeduplicatePointIds in three orders on hand-built geometries with explicit maps and planted identical values (idempotence, no identical values or points left), '
                'MeshCleanup::Cleanup with all 8 subsets of the three options of this build (expectation computed from the input: degenerate = two corners on one position entry, exact duplicates must go, '
                'position-only duplicates may go, unused points/values gone), and MeshStripifier in both output modes decoded by a 20-line strip walker back to exactly the non-degenerate input triangles with orientation.'),
    level_note='Sampled. Value deduplication is implemented for 1..4 components only; attributes with more components are skipped in the "no identical values" post-condition (counted in the evidence).',
    rule='case k runs workload k mod 5 on a generated input. Non-trivial = input has >= 1 face / point; distinct = hash of the input.',
    runs=[dict(variant='asan', harness='c14_utils', cases=dict(quick=60000, thorough=1500000))],
    min_nontrivial=20000,
    require_counters={'soup_builder_meshes': 8000, 'pc_builder_clouds': 8000, 'dedup_geometries': 8000, 'cleanup_meshes/mask7': 800, 'cleanup_meshes/mask0': 800, 'cleanup_meshes/mask2': 800,
                      'strip_sets/primitive-restart': 8000, 'strip_sets/degenerate-triangles': 8000},
    assumptions=[],
)

PROPS['C15'] = dict(
    title='Writing a geometry to OBJ/PLY/STL and reading it back preserves it',
    technique='runtime monitoring: per-format write->read oracle (bit-exact for PLY/STL, 6-decimal text tolerance + seam/connectivity relation for OBJ) and differential check of the real CLI tools against the in-library composition',
    level='exploration',
    level_text=('Generated meshes / point clouds restricted to what each format represents (float positions 1e-6..1e6 incl. +-0 and values that round at the 6th decimal, optional float normals, 2-component tex coords, '
                'uint8 colours; all C01 topologies incl. seams, duplicated / mirrored / degenerate faces) are written with ObjEncoder / PlyEncoder / StlEncoder and read back with the matching decoder: PLY and STL '
                'face-by-face bit-exact (PLY point clouds as point sets), OBJ face-by-face within 5e-7 + 2^-23*|v| with "same input entry => same output entry" and "merged entries had text-equal values". Every 150th '
                'case runs the real draco_encoder (lossless options, random -cl) and draco_decoder binaries on the OBJ file: the tool stream must equal the library stream byte for byte, the tool output file must equal '
                'the in-library composition, and no triangle may be added.'),
    level_note='Sampled. Formats facts built into the expectation: OBJ carries no colours / NaN; the PLY reader forces normalized colours and deduplicates; the STL reader adds a per-face normal attribute (only the position soup is compared).',
    rule='case k: k mod 3 selects OBJ / PLY / STL; every 150th case is a CLI composition. Non-trivial = geometry has >= 1 face (point); distinct = hash of the written file.',
    runs=[dict(variant='plain', harness='c15_io', cases=dict(quick=24000, thorough=600000), extra=['--bin-dir', 'build/plain/draco_sub'], build_targets=['draco_encoder', 'draco_decoder']),
          dict(variant='asan', harness='c15_io', tag='asan-slice', cases=dict(quick=3000, thorough=60000))],
    min_nontrivial=10000,
    require_counters={'format/obj': 5000, 'format/ply': 5000, 'format/stl': 5000, 'format/cli': 100, 'cli_output/ply': 20, 'cli_output/obj': 50, 'ply_point_clouds': 1000},
    assumptions=['CLI cases need the draco_encoder / draco_decoder binaries built from the tree under test (build target of the plain variant)'],
)
