#!/bin/bash
# build.sh <variant> [targets...]  — cmake+ninja build of /repo's current working
# tree (hooks on) plus the harness into /verif/build/<variant>.
set -e
V=$1; shift || true
ROOT=$(cd "$(dirname "$0")/.." && pwd)
B=$ROOT/build/$V
mkdir -p "$B"
COMMON="-DDRACO_VERIF -g -fno-omit-frame-pointer -Wno-error -w"
CXX=g++; CC=gcc
case "$V" in
  plain) FLAGS="-O2 $COMMON" ;;
  asan)  FLAGS="-O1 $COMMON -fsanitize=address,undefined" ;;
  tsan)  FLAGS="-O1 $COMMON -fsanitize=thread" ;;
  dbg)   FLAGS="-O1 $COMMON -DDRACO_DEBUG" ;;
  fuzz)  CXX=clang++; CC=clang; FLAGS="-O1 $COMMON -fsanitize=fuzzer-no-link,address,undefined -fno-sanitize=object-size" ;;
  *) echo "unknown variant $V" >&2; exit 2 ;;
esac
exec 9>"$B/.lock"
flock 9
if [ ! -f "$B/build.ninja" ] || [ "$ROOT/harness/CMakeLists.txt" -nt "$B/build.ninja" ]; then
  cmake -G Ninja -S "$ROOT/harness" -B "$B" -DCMAKE_BUILD_TYPE=Verif -DDRACO_REPO="${VERIF_REPO:-/repo}" \
    -DCMAKE_CXX_COMPILER=$CXX -DCMAKE_C_COMPILER=$CC \
    -DCMAKE_CXX_FLAGS="$FLAGS" -DCMAKE_CXX_FLAGS_VERIF="" -DCMAKE_C_FLAGS_VERIF="" \
    -DCMAKE_EXE_LINKER_FLAGS="-rdynamic" -DCMAKE_CXX_STANDARD=17 > "$B/cmake.log" 2>&1 || { cat "$B/cmake.log" >&2; exit 2; }
else
  # pick up new harness source files (GLOB) cheaply
  cmake "$B" > "$B/cmake.log" 2>&1 || { cat "$B/cmake.log" >&2; exit 2; }
fi
if [ $# -eq 0 ]; then set -- all; fi
ninja -C "$B" "$@" > "$B/ninja.log" 2>&1 || { tail -60 "$B/ninja.log" >&2; exit 2; }
