#!/bin/bash
# Builds /repo with the DRACO_VERIF guard OFF (the repository's own configuration in
# /repo/_build) and runs the stable baseline (draco_tests + draco_factory_tests).
# Exit 0 iff every test outside the baseline's always_fail list passes.
set -e
B=/repo/_build
if [ ! -f $B/build.ninja ]; then
  cmake -G Ninja -S /repo -B $B -DDRACO_TESTS=ON -DCMAKE_BUILD_TYPE=RelWithDebInfo -DCMAKE_CXX_FLAGS=-Wno-error >/dev/null
fi
cmake --build $B -j16 >/dev/null
cd $B
fail=0
for t in draco_tests draco_factory_tests; do
  ./$t --gtest_output=xml:$B/verif_$t.xml > $B/verif_$t.log 2>&1 || true
done
python3 - <<'PY'
import json, sys, xml.etree.ElementTree as ET
base = json.load(open('/root/.vp/BASELINE.json'))
stable = set(base['stable_pass'])
seen = {}
for t in ('draco_tests', 'draco_factory_tests'):
    root = ET.parse('/repo/_build/verif_%s.xml' % t).getroot()
    for tc in root.iter('testcase'):
        name = '%s::%s' % (tc.get('classname'), tc.get('name'))
        ok = tc.find('failure') is None and tc.find('error') is None
        seen[name] = ok
bad = [n for n in stable if not seen.get(n, False)]
print('baseline (guard off): %d stable tests, %d passed, %d failed/missing' % (len(stable), len(stable) - len(bad), len(bad)))
for n in bad[:20]:
    print('  FAILED', n)
sys.exit(1 if bad else 0)
PY
