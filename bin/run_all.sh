#!/bin/bash
# Runs every registered quick (or $1=thorough) check once and prints one line per check.
cd "$(dirname "$0")/.."
tier=${1:-quick}
for p in $(python3 -c "import sys; sys.path.insert(0,'bin'); from props import PROPS; print(' '.join(sorted(PROPS)))"); do
  t0=$(date +%s)
  out=$(bin/check run $p --tier $tier 2>&1)
  rc=$?
  echo "$p rc=$rc $(( $(date +%s) - t0 ))s :: $(echo "$out" | grep -E "^(VIOLATION|KNOWN-FINDING|INCONCLUSIVE|HARNESS)" | cut -c1-160 | head -3 | tr '\n' '|')"
done
