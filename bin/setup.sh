#!/bin/bash
# Offline set-up after a fresh restore: pre-build the variants so that the checks only
# need an incremental rebuild. Uses only files on disk.
cd "$(dirname "$0")/.."
set -e
bin/build.sh plain
bin/build.sh asan
bin/build.sh tsan
echo setup ok
