#!/usr/bin/env python3
"""Generates seeded/README.md from seeded/*/meta.json."""
import glob, json, os
ROOT = os.path.dirname(os.path.dirname(os.path.abspath(__file__)))
rows = []
for f in sorted(glob.glob(os.path.join(ROOT, 'seeded', '*', 'meta.json'))):
    rows.append(json.load(open(f)))
out = ['# Seeded changes', '',
       'Each directory holds a change to google/draco written by an independent sub-agent that was given only the text of one property and a scratch worktree',
       '(nothing from /verif). A change is kept only after it was confirmed in its scratch worktree (`bin/confirm_seed.sh`): the library builds, the existing test suite still',
       'passes, the demonstration fails with the change and passes without it. To re-run the checks against one: `bin/try_patch.sh seeded/<id>/patch.diff quick <PROP>...`',
       '(applies the patch to /repo, runs the checks, restores /repo). None of these changes is ever committed to /repo.', '',
       '| id | breaks | change | needs to manifest | caught by | notes |', '|---|---|---|---|---|---|']
for m in rows:
    notes = m.get('strengthened', '')
    missed = [k for k, v in m.get('checks_run', {}).items() if 'MISSED' in v]
    if missed:
        notes = ('first run missed it; ' + notes).strip()
    out.append('| %s | %s | %s | %s | %s | %s |' % (m['id'], m['property'], m['change'].replace('|', '/'), m['needs_to_manifest'].replace('|', '/'), ', '.join(m['caught_by']) or '**none**', notes.replace('|', '/')))
out += ['', '## Per-check outcomes', '']
for m in rows:
    out.append('### %s (%s)' % (m['id'], m['property']))
    for k, v in m.get('checks_run', {}).items():
        out.append('* %s: %s' % (k, v))
    out.append('')
open(os.path.join(ROOT, 'seeded', 'README.md'), 'w').write('\n'.join(out) + '\n')
# short catch matrix inside DESIGN.md (between the markers)
mat = ['<!-- seeded-matrix-begin -->', '| change | aimed at | file changed | caught by (quick) | also run, silent |', '|---|---|---|---|---|']
for m in rows:
    silent = sorted({k.split()[0] for k, v in m.get('checks_run', {}).items() if v.startswith('rc=0')} - set(m['caught_by']))
    mat.append('| %s | %s | %s | %s | %s |' % (m['id'], m['property'], m['change'].split(':')[0].split(',')[0].split(' ')[0], ', '.join(m['caught_by']) or '**none**', ', '.join(silent)))
mat.append('<!-- seeded-matrix-end -->')
dp = os.path.join(ROOT, 'DESIGN.md')
d = open(dp).read()
if '@@MATRIX@@' in d:
    d = d.replace('@@MATRIX@@', '\n'.join(mat))
else:
    a = d.index('<!-- seeded-matrix-begin -->'); b = d.index('<!-- seeded-matrix-end -->') + len('<!-- seeded-matrix-end -->')
    d = d[:a] + '\n'.join(mat) + d[b:]
open(dp, 'w').write(d)
print('seeded/README.md: %d changes' % len(rows))
