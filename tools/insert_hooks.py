#!/usr/bin/env python3
"""One-shot helper used to insert DRACO_VERIF hook call sites (add-only).
Each entry: file, anchor regex (first match after optional 'after' regex), text inserted AFTER (or BEFORE) the anchor line."""
import re, sys
R = '/repo/src/draco/'
def ins(path, anchor, text, after=None, before=False, nth=1):
    p = R + path
    L = open(p).read().split('\n')
    start = 0
    if after:
        for i, l in enumerate(L):
            if re.search(after, l):
                start = i; break
        else:
            sys.exit('after not found: %s %s' % (path, after))
    cnt = 0
    for i in range(start, len(L)):
        if re.search(anchor, L[i]):
            cnt += 1
            if cnt == nth:
                block = ['#ifdef DRACO_VERIF'] + text.split('\n') + ['#endif']
                pos = i if before else i + 1
                L[pos:pos] = block
                open(p, 'w').write('\n'.join(L))
                print('ok', path, i + 1)
                return
    sys.exit('anchor not found: %s %s' % (path, anchor))
def inc(path, anchor):
    ins(path, anchor, '#include "draco/core/verif_hooks.h"')
if __name__ == '__main__':
    exec(open(sys.argv[1]).read())
