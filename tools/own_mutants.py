#!/usr/bin/env python3
"""Hand-written single-site changes to google/draco taken from the "M" lists of DESIGN.md section 5
(the kinds of maintenance slips each check is supposed to notice). They complement the independent
sub-agent seeds in seeded/<id>/: simpler, but spread over every property and over code sites the
sub-agents did not pick.

  tools/own_mutants.py gen <worktree>     write seeded/own/<id>.diff for every mutant (applies each replacement in
                                          the scratch worktree, takes `git diff`, reverts)
  tools/own_mutants.py list               id, properties to run, file

The driver loop is bin/own_mutants.sh (existing tests in the scratch worktree, then bin/try_patch.sh on /repo).
"""
import os
import subprocess
import sys

ROOT = os.path.dirname(os.path.dirname(os.path.abspath(__file__)))
S = 'src/draco/'

# (id, checks to run, file, old, new, what)
MUTANTS = [
    ('o01', 'C02 C03', S + 'compression/mesh/mesh_edgebreaker_decoder_impl.cc',
     """      if (corner_a == corner_b) {
        // All matched corners must be different.
        return -1;
      }
      if (corner_table_->Opposite(corner_a) != kInvalidCornerIndex ||
          corner_table_->Opposite(corner_b) != kInvalidCornerIndex) {
        // One of the corners is already opposite to an existing face, which
        // should not happen unless the input was tampered with.
        return -1;
      }

      // First corner on the new face is corner "x" from the image above.
      const CornerIndex corner(3 * face.value());
      // Update the opposite corner mapping.
      SetOppositeCorners(corner_a, corner + 2);""",
     """      if (corner_table_->Opposite(corner_a) != kInvalidCornerIndex ||
          corner_table_->Opposite(corner_b) != kInvalidCornerIndex) {
        // One of the corners is already opposite to an existing face, which
        // should not happen unless the input was tampered with.
        return -1;
      }

      // First corner on the new face is corner "x" from the image above.
      const CornerIndex corner(3 * face.value());
      // Update the opposite corner mapping.
      SetOppositeCorners(corner_a, corner + 2);""",
     'Edgebreaker decoder: TOPOLOGY_S no longer rejects corner_a == corner_b'),
    ('o02', 'C02 C08', S + 'compression/entropy/ans.h',
     """      cum_prob += token_probs[i];
      if (cum_prob > rans_precision) {
        return false;
      }
      for (uint32_t j = act_prob; j < cum_prob; ++j) {""",
     """      cum_prob += token_probs[i];
      for (uint32_t j = act_prob; j < cum_prob; ++j) {""",
     'rANS decoder look-up table: the running `cum_prob > rans_precision` check dropped (only the final sum is checked)'),
    ('o03', 'C18 C02', S + 'metadata/metadata_decoder.cc',
     """  if (data_size > buffer_->remaining_size()) {
    return false;
  }
  std::vector<uint8_t> entry_value(data_size);""",
     """  std::vector<uint8_t> entry_value(data_size);""",
     'metadata decoder: entry size no longer compared with the remaining bytes before the value buffer is allocated'),
    ('o04', 'C18 C02', S + 'metadata/metadata_decoder.cc',
     """    if (num_sub_metadata > buffer_->remaining_size()) {
      // The decoded number of metadata items is unreasonably high.
      return false;
    }
""",
     "",
     'metadata decoder: number of sub-metadata no longer bounded by the remaining bytes'),
    ('o05', 'C02', S + 'compression/attributes/prediction_schemes/mesh_prediction_scheme_constrained_multi_parallelogram_decoder.h',
     """        if (is_crease_edge_[context].size() <= pos) {
          return false;
        }
""",
     "",
     'constrained multi-parallelogram decoder: crease flag index no longer checked against the decoded flag count'),
    ('o06', 'C02 C03', S + 'compression/attributes/kd_tree_attributes_decoder.cc',
     """      const AttributeValueIndex avi = attribute->mapped_index(point_id_);
      if (avi >= static_cast<uint32_t>(attribute->size())) {
        return *this;
      }
      const uint32_t &offset = std::get<1>(att);
      const uint32_t &data_size = std::get<3>(att);""",
     """      const AttributeValueIndex avi = attribute->mapped_index(point_id_);
      const uint32_t &offset = std::get<1>(att);
      const uint32_t &data_size = std::get<3>(att);""",
     'kd-tree output iterator: write position no longer checked against the attribute size'),
    ('o07', 'C04 C12', S + 'attributes/attribute_quantization_transform.cc',
     """  const uint32_t max_quantized_value = (1 << (quantization_bits_)) - 1;
  Quantizer quantizer;
  quantizer.Init(range(), max_quantized_value);
  int32_t dst_index = 0;
  const std::unique_ptr<float[]> att_val(new float[num_components]);
  for (uint32_t i = 0; i < point_ids.size(); ++i) {""",
     """  const uint32_t max_quantized_value = (1 << (quantization_bits_));
  Quantizer quantizer;
  quantizer.Init(range(), max_quantized_value);
  int32_t dst_index = 0;
  const std::unique_ptr<float[]> att_val(new float[num_components]);
  for (uint32_t i = 0; i < point_ids.size(); ++i) {""",
     'quantization transform (point-id ordered variant only): quantizer initialised with 2^q instead of 2^q-1'),
    ('o08', 'C04 C01', S + 'attributes/attribute_quantization_transform.cc',
     """  for (AttributeValueIndex i(1); i < static_cast<uint32_t>(attribute.size());
       ++i) {""",
     """  for (AttributeValueIndex i(1); i + 1 < static_cast<uint32_t>(attribute.size());
       ++i) {""",
     'ComputeParameters: the last attribute value is left out of the min/range scan'),
    ('o09', 'C07', S + 'compression/attributes/normal_compression_utils.h',
     """    dequantization_scale_ = 2.f / max_value_;""",
     """    dequantization_scale_ = 2.f / max_quantized_value_;""",
     'octahedron tool box: dequantization scale uses 2^q-1 instead of 2^q-2'),
    ('o10', 'C16 C01', S + 'compression/attributes/prediction_schemes/prediction_scheme_wrap_decoding_transform.h',
     """      if (value > this->max_value()) {
        value -= this->max_dif();""",
     """      if (value >= this->max_value()) {
        value -= this->max_dif();""",
     'wrap decoding transform: unwraps at value >= max instead of value > max'),
    ('o11', 'C17 C01', S + 'core/bit_utils.h',
     """  val = -(val + 1);  // Map -1 to 0, -2 to -1, etc..
  UnsignedType ret = static_cast<UnsignedType>(val);""",
     """  val = -val - 1;  // Map -1 to 0, -2 to -1, etc..
  UnsignedType ret = static_cast<UnsignedType>(val);""",
     'ConvertSignedIntToSymbol: -(val+1) rewritten as -val-1 (signed overflow for the minimum value)'),
    ('o12', 'C02', S + 'metadata/metadata_decoder.cc',
     """      if (mp.level > kMaxSubmetadataLevel) {
        return false;
      }
""",
     "",
     'metadata decoder: nesting depth limit removed (recursive destructor)'),
]


def main():
    if len(sys.argv) >= 2 and sys.argv[1] == 'list':
        for m in MUTANTS:
            print(m[0], '|', m[1], '|', m[2], '|', m[5])
        return 0
    if len(sys.argv) >= 3 and sys.argv[1] == 'gen':
        wt = sys.argv[2]
        outdir = os.path.join(ROOT, 'seeded', 'own')
        os.makedirs(outdir, exist_ok=True)
        for mid, props, f, old, new, what in MUTANTS:
            p = os.path.join(wt, f)
            t = open(p).read()
            if t.count(old) != 1:
                print('%s: pattern found %d times in %s' % (mid, t.count(old), f))
                return 1
            open(p, 'w').write(t.replace(old, new))
            d = subprocess.run(['git', '-C', wt, 'diff', '--', 'src'], capture_output=True, text=True).stdout
            subprocess.run(['git', '-C', wt, 'checkout', '--', 'src'], check=True)
            open(os.path.join(outdir, mid + '.diff'), 'w').write(d)
            print('wrote', mid)
        return 0
    print(__doc__)
    return 2


if __name__ == '__main__':
    sys.exit(main())
