// C19: independent encoder/decoder instances can run concurrently.
// Monitors: ThreadSanitizer (tsan variant; report blocks are read back from the worker's
// stderr file after every case) and a cross-talk oracle: every job's result under concurrency
// must equal its result computed alone beforehand. Pre-emption points are diversified by
// sched_yield / short sleeps injected from the thread_local DRACO_VERIF hooks.
#include <sched.h>

#include <atomic>
#include <chrono>
#include <mutex>
#include <thread>

#include "common/canon.h"
#include "common/codec.h"
#include "common/geo.h"
#include "common/runner.h"
#include "draco/animation/keyframe_animation.h"
#include "draco/animation/keyframe_animation_decoder.h"
#include "draco/animation/keyframe_animation_encoder.h"
#include "draco/io/obj_encoder.h"
#include "draco/io/ply_encoder.h"

using namespace draco;
using vf::Reporter;
using vf::Rng;

static const char *kKindName[] = {"encode-mesh", "encode-pc", "decode", "decode-skip", "keyframes", "obj-encode", "ply-encode"};

struct Job {
  int kind;
  vf::Geo g;
  vf::EncOpts o;
  std::string bytes;  // for decode jobs
  int frames = 0;
  std::string expect;
};

struct Yielder { uint64_t s; int prob; };
static int64_t YieldTamper(void *ctx, int, int64_t v) {
  Yielder *y = static_cast<Yielder *>(ctx);
  y->s ^= y->s << 13; y->s ^= y->s >> 7; y->s ^= y->s << 17;
  if (static_cast<int>(y->s % 1000) < y->prob) { if ((y->s >> 20) % 4 == 0) std::this_thread::sleep_for(std::chrono::microseconds((y->s >> 30) % 40)); else sched_yield(); }
  return v;
}
static void YieldEvent(void *ctx, int, int64_t, int64_t) { YieldTamper(ctx, 0, 0); }

static std::string Hash(const std::string &b) { char x[24]; snprintf(x, sizeof x, "%016llx", (unsigned long long)vf::HashBytes(b.data(), b.size())); return x; }

static std::string RunJob(const Job &j) {
  switch (j.kind) {
    case 0: case 1: {
      std::unique_ptr<Mesh> mesh; std::unique_ptr<PointCloud> pcu; const PointCloud *pc;
      if (j.g.is_mesh) { mesh = vf::ToMesh(j.g); pc = mesh.get(); } else { pcu = vf::ToPointCloud(j.g); pc = pcu.get(); }
      vf::EncResult er = vf::Encode(j.g, *pc, mesh.get(), j.o);
      return er.status.ok() ? "ok:" + Hash(er.bytes) + ":" + std::to_string(er.num_points) : std::string("err:") + er.status.error_msg();
    }
    case 2: case 3: {
      std::vector<GeometryAttribute::Type> skip;
      if (j.kind == 3) skip = {GeometryAttribute::POSITION, GeometryAttribute::NORMAL, GeometryAttribute::TEX_COORD};
      vf::DecResult d = vf::Decode(j.bytes.data(), j.bytes.size(), skip);
      if (!d.status.ok()) return std::string("err:") + d.status.error_msg();
      auto dg = vf::OrderedDigest(*d.pc, d.mesh);
      char x[48]; snprintf(x, sizeof x, "ok:%016llx%016llx", (unsigned long long)dg.first, (unsigned long long)dg.second);
      return x;
    }
    case 4: {
      KeyframeAnimation anim;
      std::vector<float> ts(j.frames), d(j.frames * 3);
      for (int i = 0; i < j.frames; ++i) { ts[i] = 0.05f * i; for (int c = 0; c < 3; ++c) d[3 * i + c] = std::sin(0.1f * i + c) * (1 + j.frames % 7); }
      anim.SetTimestamps(ts);
      int id = anim.AddKeyframes<float>(DT_FLOAT32, 3, d);
      EncoderOptions opt = EncoderOptions::CreateDefaultOptions();
      if (j.frames % 2) opt.SetAttributeInt(id, "quantization_bits", 8 + j.frames % 9);
      EncoderBuffer eb; KeyframeAnimationEncoder enc;
      if (!enc.EncodeKeyframeAnimation(anim, opt, &eb).ok()) return "err:encode";
      DecoderBuffer db; db.Init(eb.data(), eb.size());
      KeyframeAnimation out; KeyframeAnimationDecoder dec; DecoderOptions dopt;
      if (!dec.Decode(dopt, &db, &out).ok()) return "err:decode";
      auto dg = vf::OrderedDigest(out, nullptr);
      char x[64]; snprintf(x, sizeof x, "ok:%016llx:%016llx", (unsigned long long)vf::HashBytes(eb.data(), eb.size()), (unsigned long long)dg.first);
      return x;
    }
    default: {
      std::unique_ptr<Mesh> mesh = vf::ToMesh(j.g);
      EncoderBuffer eb;
      bool ok;
      if (j.kind == 5) { ObjEncoder e; ok = e.EncodeToBuffer(*mesh, &eb); } else { PlyEncoder e; ok = e.EncodeToBuffer(*mesh, &eb); }
      return ok ? "ok:" + Hash(std::string(eb.data(), eb.size())) : "err:io-encode";
    }
  }
}

struct Stamp { int kind; int64_t t0, t1; };

// Extracts TSan report blocks appended to the worker's stderr file since the last call.
static std::vector<std::string> NewTsanReports(const std::string &path, size_t *offset) {
  std::vector<std::string> blocks;
  FILE *f = fopen(path.c_str(), "rb");
  if (!f) return blocks;
  fseek(f, static_cast<long>(*offset), SEEK_SET);
  std::string s;
  char buf[65536];
  size_t n;
  while ((n = fread(buf, 1, sizeof buf, f)) > 0) s.append(buf, n);
  fclose(f);
  *offset += s.size();
  size_t p = 0;
  while ((p = s.find("WARNING: ThreadSanitizer:", p)) != std::string::npos) {
    size_t e = s.find("==================", p);
    blocks.push_back(s.substr(p, e == std::string::npos ? std::string::npos : e - p));
    p = e == std::string::npos ? s.size() : e;
  }
  return blocks;
}

static std::string TsanKey(const std::string &block) {
  // kind + the first Draco frame of the first two stacks
  std::string kind = block.substr(26, block.find('\n') - 26);
  kind = kind.substr(0, kind.find(" (pid"));
  std::string frames;
  int found = 0;
  size_t p = 0;
  bool in_stack_with_frame = false;
  while (found < 2 && p < block.size()) {
    size_t e = block.find('\n', p);
    if (e == std::string::npos) e = block.size();
    std::string line = block.substr(p, e - p);
    p = e + 1;
    size_t h = line.find('#');
    if (h == std::string::npos) { in_stack_with_frame = false; continue; }  // stack header / blank line
    if (in_stack_with_frame) continue;
    size_t d = line.find(" draco::", h);
    if (d == std::string::npos) continue;
    size_t fe = line.find_first_of("(<", d + 1);
    frames += (found ? "|" : "") + line.substr(d + 1, fe == std::string::npos ? std::string::npos : fe - d - 1);
    ++found;
    in_stack_with_frame = true;
  }
  return "tsan/" + kind + "/" + (frames.empty() ? "no-draco-frame" : frames);
}

int main(int argc, char **argv) {
  static std::string out_path;
  { vf::Args a = vf::ParseArgs(argc, argv); out_path = a.out; }
  return vf::RunHarness(argc, argv, "C19", [](int64_t k, Rng &r, Reporter &rep) {
    static size_t san_offset = 0;
    const bool thorough = rep.args().tier == "thorough";
    const int nthreads = 2 << r.below(4);  // 2,4,8,16
    const int njobs = 12 + r.below(thorough ? 52 : 28);
    std::vector<Job> jobs(njobs);
    // ---- build the job pool ------------------------------------------------------------------
    for (auto &j : jobs) {
      j.kind = static_cast<int>(r.below(7));
      vf::GenParams gp;
      gp.size_class = r.below(3) == 0 ? 3 : 2;
      gp.narrow_int32 = true;
      gp.allow_special_floats = false;
      if (j.kind == 4) { j.frames = 2 + r.below(200); continue; }
      gp.point_cloud = j.kind == 1 || ((j.kind == 2 || j.kind == 3) && r.below(3) == 0);
      if (j.kind >= 5) { gp.point_cloud = false; gp.float_pos = true; gp.allow_int_pos = false; }
      j.g = vf::GenGeo(r, gp);
      j.o = vf::GenOpts(r, j.g);
      vf::AvoidHugeEntropyTables(j.g, &j.o);
      if (j.kind == 2 || j.kind == 3) {
        std::unique_ptr<Mesh> mesh; std::unique_ptr<PointCloud> pcu; const PointCloud *pc;
        if (j.g.is_mesh) { mesh = vf::ToMesh(j.g); pc = mesh.get(); } else { pcu = vf::ToPointCloud(j.g); pc = pcu.get(); }
        vf::EncResult er = vf::Encode(j.g, *pc, mesh.get(), j.o);
        if (!er.status.ok()) { j.kind = j.g.is_mesh ? 0 : 1; } else j.bytes = er.bytes;
      }
    }
    // ---- reference results, computed alone -------------------------------------------------------
    for (auto &j : jobs) j.expect = RunJob(j);
    // ---- concurrent phase -------------------------------------------------------------------------
    const int reps = 2 + r.below(3);
    std::atomic<int> ready{0};
    std::atomic<bool> go{false};
    std::mutex mu;
    std::vector<Stamp> stamps;
    std::vector<std::string> mismatches;
    std::vector<std::thread> threads;
    const auto t_base = std::chrono::steady_clock::now();
    for (int t = 0; t < nthreads; ++t) {
      const uint64_t seed = r.next() | 1;
      const int prob = static_cast<int>(r.below(4) == 0 ? 0 : r.below(60));
      threads.emplace_back([&, seed, prob, t] {
        Yielder y{seed, prob};
        auto &h = draco::verif::hooks();
        h.tamper = YieldTamper; h.event = YieldEvent; h.ctx = &y;
        ready.fetch_add(1);
        while (!go.load(std::memory_order_acquire)) sched_yield();
        uint64_t s = seed;
        std::vector<Stamp> local;
        std::vector<std::string> bad;
        for (int i = 0; i < reps * njobs / nthreads + 1; ++i) {
          s ^= s << 13; s ^= s >> 7; s ^= s << 17;
          const Job &j = jobs[(s >> 8) % njobs];
          const int64_t t0 = std::chrono::duration_cast<std::chrono::microseconds>(std::chrono::steady_clock::now() - t_base).count();
          std::string got = RunJob(j);
          const int64_t t1 = std::chrono::duration_cast<std::chrono::microseconds>(std::chrono::steady_clock::now() - t_base).count();
          local.push_back({j.kind, t0, t1});
          if (got != j.expect) bad.push_back(std::string(kKindName[j.kind]) + ": alone=" + j.expect + " concurrent=" + got);
        }
        h.tamper = nullptr; h.event = nullptr; h.ctx = nullptr;
        std::lock_guard<std::mutex> lk(mu);
        stamps.insert(stamps.end(), local.begin(), local.end());
        mismatches.insert(mismatches.end(), bad.begin(), bad.end());
        (void)t;
      });
    }
    while (ready.load() < nthreads) sched_yield();
    go.store(true, std::memory_order_release);
    for (auto &t : threads) t.join();
    // ---- verdicts -------------------------------------------------------------------------------------
    const std::string desc = "threads=" + std::to_string(nthreads) + " jobs=" + std::to_string(njobs) + " executions=" + std::to_string(stamps.size());
    if (!mismatches.empty()) { rep.violation("cross-talk/" + mismatches[0].substr(0, mismatches[0].find(':')), desc + " :: " + mismatches[0] + " (" + std::to_string(mismatches.size()) + " mismatches)"); return; }
#if defined(__SANITIZE_THREAD__)
    {
      std::vector<std::string> blocks = NewTsanReports(out_path + ".san." + std::to_string(getpid()), &san_offset);
      for (auto &b : blocks) {
        if (b.find("draco::") == std::string::npos) { fprintf(stderr, "TSan report without Draco frames (harness defect)\n"); abort(); }
        rep.violation(TsanKey(b), desc + " :: " + b.substr(0, 1500), {{"tsan_report.txt", b}});
      }
      rep.count("tsan_report_blocks", static_cast<int64_t>(blocks.size()));
      if (!blocks.empty()) return;
    }
#endif
    // overlaps actually observed
    int64_t overlapping_pairs = 0;
    std::vector<char> seen(49, 0);
    for (size_t a = 0; a < stamps.size(); ++a) for (size_t b = a + 1; b < stamps.size() && b < a + 400; ++b) {
      if (stamps[a].t0 < stamps[b].t1 && stamps[b].t0 < stamps[a].t1) { ++overlapping_pairs; seen[stamps[a].kind * 7 + stamps[b].kind] = 1; seen[stamps[b].kind * 7 + stamps[a].kind] = 1; }
    }
    for (int a = 0; a < 7; ++a) for (int b = a; b < 7; ++b) if (seen[a * 7 + b]) rep.count(std::string("overlap/") + kKindName[a] + "+" + kKindName[b]);
    rep.count("overlapping_execution_pairs", overlapping_pairs);
    rep.count("job_executions", static_cast<int64_t>(stamps.size()));
    rep.count("threads/" + std::to_string(nthreads));
    for (auto &j : jobs) rep.count(std::string("jobs/") + kKindName[j.kind]);
    rep.held(vf::HashCombine(r.next(), k), overlapping_pairs > 0);
    if (r.below(40) == 0) rep.sample("{\"case\":\"" + desc + "\",\"overlapping_pairs\":" + std::to_string(overlapping_pairs) + "}");
  });
}
