// C04: quantization error is at most half a step (+ float32 allowance); decoded values stay
// inside the quantization box. Also serves C12 (--prop C12): explicit quantization maps equal
// coordinates to equal decoded values, on the grid origin + k*range/(2^bits-1).
// Points are tagged with an unquantized uint32 attribute so that decoded values can be matched to
// originals under any point reordering.
#include <cmath>
#include <map>

#include <fcntl.h>
#include <sys/file.h>
#include <sys/wait.h>
#include <unistd.h>

#include "common/alloc_monitor.h"
#include "common/canon.h"
#include "common/codec.h"
#include "common/geo.h"
#include "common/runner.h"
#include "common/trace.h"

using namespace draco;
using vf::Reporter;
using vf::Rng;

struct Target {
  int nc;
  std::vector<float> vals;  // nvals * nc
  int bits;
  bool explicit_q = false;
  std::vector<float> origin;
  float range = 0;
  std::string style;
};

static std::string ExplicitStr(const Target &t) {
  if (!t.explicit_q) return "";
  char b[200];
  std::string s = " origin=[";
  for (float o : t.origin) { snprintf(b, sizeof b, "%.9g,", o); s += b; }
  snprintf(b, sizeof b, "] range=%.9g", t.range);
  return s + b;
}
static float Mag(Rng &r) { const float m[] = {1e-6f, 1e-3f, 1.f, 1.f, 37.5f, 1e3f, 1e6f, 1e9f}; return m[r.below(8)]; }

static void GenValues(Rng &r, size_t n, Target *t) {
  t->nc = static_cast<int>(r.range(1, 4));
  const int b[] = {1, 2, 3, 7, 8, 10, 11, 14, 16, 19, 21, 22, 24, 30};
  t->bits = r.below(3) == 0 ? static_cast<int>(r.range(1, 30)) : b[r.below(14)];
  const float scale = Mag(r);
  float offset[4];
  const int offmode = r.below(4);
  for (int c = 0; c < 4; ++c) offset[c] = offmode == 0 ? 0.f : offmode == 1 ? static_cast<float>(r.uniform(-10, 10) * scale) : offmode == 2 ? static_cast<float>(r.uniform(-1, 1) * 1e4 * scale) : static_cast<float>((r.below(2) ? 1 : -1) * 1e7 * scale);
  int style = r.below(7);
  if (style == 5) style = 0;  // denormal magnitudes are outside C04's quantifier (1e-6..1e9)
  const char *names[] = {"uniform", "grid-ties", "constant", "outlier", "gauss", "denormal", "two-values"};
  t->style = names[style];
  t->vals.resize(n * t->nc);
  // per-component extents differ so that R is taken from the largest one
  float cs[4];
  for (int c = 0; c < 4; ++c) cs[c] = scale * (r.below(3) == 0 ? 1.f : static_cast<float>(r.uniform(0.01, 1)));
  const double maxq = std::ldexp(1.0, t->bits) - 1;
  for (size_t i = 0; i < n; ++i) for (int c = 0; c < t->nc; ++c) {
    double v;
    switch (style) {
      case 0: v = r.uniform(-1, 1) * cs[c]; break;
      case 1: {  // k*step +- eps and exact ties (k+1/2)*step, relative to a range of 2*scale
        double step = 2.0 * scale / maxq;
        double k = std::floor(r.unit() * std::min(maxq, 1e6));
        int m = r.below(4);
        v = -scale + (m == 0 ? k : m == 1 ? k + 0.5 : m == 2 ? k + 0.5 - 1e-7 : k + 0.5 + 1e-7) * step;
        if (i == 0) v = -scale; if (i == 1) v = scale;
        break;
      }
      case 2: v = 0.75 * cs[c]; break;
      case 3: v = (i == n / 2) ? 1e3 * cs[c] : r.uniform(-1, 1) * cs[c]; break;
      case 4: v = r.gauss() * cs[c]; break;
      case 5: v = r.uniform(-1, 1) * 1e-39; break;
      default: v = r.below(2) ? cs[c] : -cs[c]; break;
    }
    t->vals[i * t->nc + c] = static_cast<float>(v + (style == 5 ? 0.0 : offset[c]));
  }
}

// Analytic bound in double precision, from the inputs only.
struct Bound { std::vector<double> mn, mx; double R, step, A; };
static Bound MakeBound(const Target &t) {
  Bound b;
  const size_t n = t.vals.size() / t.nc;
  b.mn.assign(t.nc, 0); b.mx.assign(t.nc, 0);
  if (t.explicit_q) {
    for (int c = 0; c < t.nc; ++c) { b.mn[c] = t.origin[c]; b.mx[c] = static_cast<double>(t.origin[c]) + t.range; }
    b.R = t.range;
  } else {
    for (int c = 0; c < t.nc; ++c) { b.mn[c] = b.mx[c] = t.vals[c]; }
    for (size_t i = 1; i < n; ++i) for (int c = 0; c < t.nc; ++c) { double v = t.vals[i * t.nc + c]; b.mn[c] = std::min(b.mn[c], v); b.mx[c] = std::max(b.mx[c], v); }
    b.R = 0;
    for (int c = 0; c < t.nc; ++c) b.R = std::max(b.R, b.mx[c] - b.mn[c]);
    if (b.R == 0) b.R = 1;
  }
  b.step = b.R / (std::ldexp(1.0, t.bits) - 1);
  double mag = b.R;
  for (int c = 0; c < t.nc; ++c) { mag = std::max(mag, std::fabs(b.mn[c])); mag = std::max(mag, std::fabs(b.mx[c])); }
  b.A = std::ldexp(mag, -21);
  return b;
}

// At least 24 GiB available to this process (machine and, if there is one, the cgroup limit).
static bool EnoughMemoryForGiant() {
  const int64_t need = 24ll << 30;
  int64_t avail = -1;
  if (FILE *f = fopen("/proc/meminfo", "r")) {
    char line[256];
    while (fgets(line, sizeof line, f)) { long long kb; if (sscanf(line, "MemAvailable: %lld kB", &kb) == 1) avail = kb * 1024; }
    fclose(f);
  }
  if (avail >= 0 && avail < need) return false;
  const char *limits[] = {"/sys/fs/cgroup/memory.max", "/sys/fs/cgroup/memory/memory.limit_in_bytes"};
  for (const char *p : limits) if (FILE *f = fopen(p, "r")) {
    char buf[64] = {0};
    if (fgets(buf, sizeof buf, f)) { char *end = nullptr; long long v = strtoll(buf, &end, 10); if (end != buf && v > 0 && v < need) { fclose(f); return false; } }
    fclose(f);
  }
  return true;
}

struct Built {
  vf::Geo g;
  int target_att, tag_att;
};

// Geometry with [POSITION (maybe the target), target, tag]; all per-vertex.
static Built BuildTagged(Rng &r, const vf::Topo &t, bool point_cloud, const Target &tg, bool target_is_position) {
  Built b;
  vf::Geo &g = b.g;
  g.is_mesh = !point_cloud;
  g.family = t.name;
  g.npoints = t.nverts;
  if (!point_cloud) g.faces = t.tris;
  auto add = [&](GeometryAttribute::Type type, DataType dt, int nc, uint32_t uid) -> vf::Attr & {
    vf::Attr a;
    a.type = type; a.dt = dt; a.nc = nc; a.unique_id = uid; a.elem = 0; a.nvals = t.nverts;
    a.data.resize(a.nvals * a.stride());
    g.atts.push_back(a);
    return g.atts.back();
  };
  if (!target_is_position) {
    vf::Attr &p = add(GeometryAttribute::POSITION, DT_FLOAT32, 3, 0);
    for (uint32_t v = 0; v < t.nverts; ++v) for (int c = 0; c < 3; ++c) vf::PutF(p.val(v) + 4 * c, t.coord[v][c]);
  }
  g.pos_att = 0;
  const GeometryAttribute::Type types[] = {GeometryAttribute::GENERIC, GeometryAttribute::TEX_COORD, GeometryAttribute::COLOR};
  vf::Attr &ta = add(target_is_position ? GeometryAttribute::POSITION : types[r.below(3)], DT_FLOAT32, tg.nc, 7);
  b.target_att = static_cast<int>(g.atts.size()) - 1;
  memcpy(ta.data.data(), tg.vals.data(), tg.vals.size() * 4);
  vf::Attr &tag = add(GeometryAttribute::GENERIC, DT_UINT32, 1, 42);
  b.tag_att = static_cast<int>(g.atts.size()) - 1;
  for (uint32_t v = 0; v < t.nverts; ++v) memcpy(tag.val(v), &v, 4);
  // Attribute order is part of the input: in a third of the cases POSITION is not the first attribute (encoders that
  // use it as prediction parent are then created before it).
  if (!target_is_position && r.below(3) == 0) {
    const int n = static_cast<int>(g.atts.size());  // 3: position, target, tag
    std::vector<int> perm(n);
    for (int i = 0; i < n; ++i) perm[i] = i;
    do { for (int i = n - 1; i > 0; --i) std::swap(perm[i], perm[r.below(i + 1)]); } while (perm[0] == 0);  // new slot of old attribute i
    std::vector<vf::Attr> old = g.atts;
    for (int i = 0; i < n; ++i) g.atts[perm[i]] = old[i];
    g.pos_att = perm[0]; b.target_att = perm[b.target_att]; b.tag_att = perm[b.tag_att];
  }
  return b;
}

static vf::Topo PointTopo(Rng &r, int n) {
  vf::Topo t;
  t.nverts = n;
  t.name = "points";
  for (int i = 0; i < n; ++i) t.coord.push_back({static_cast<float>(r.uniform(-1, 1)), static_cast<float>(r.uniform(-1, 1)), static_cast<float>(r.uniform(-1, 1))});
  return t;
}

static bool DropUnusedVertices(vf::Topo *t) {
  // Edgebreaker drops points used by no triangle and faces with a repeated vertex; keep the topology
  // but remember which vertices survive (the tag identifies them anyway).
  return !t->tris.empty();
}

struct Run {
  bool ok = false;
  std::string refuse;
  std::string cfg;
  std::vector<std::pair<uint32_t, std::vector<float>>> decoded;  // (tag, value)
  std::string bytes;
};

static Run EncodeDecode(const Built &b, const vf::EncOpts &o, Reporter &rep, const std::string &desc, bool report_c01_failures, const std::string *pre_encoded = nullptr) {
  Run run;
  std::unique_ptr<Mesh> mesh;
  std::unique_ptr<PointCloud> pcu;
  const PointCloud *pc;
  if (b.g.is_mesh) { mesh = vf::ToMesh(b.g); pc = mesh.get(); } else { pcu = vf::ToPointCloud(b.g); pc = pcu.get(); }
  vf::EncResult er;
  if (pre_encoded) { er.bytes = *pre_encoded; }
  else er = vf::Encode(b.g, *pc, mesh.get(), o);
  if (!er.status.ok()) { run.refuse = er.status.error_msg(); return run; }
  run.bytes = er.bytes;
  rep.stage(1, "stream.drc", er.bytes.data(), er.bytes.size());
  const int method = static_cast<uint8_t>(er.bytes[8]);
  run.cfg = b.g.is_mesh ? (method == MESH_EDGEBREAKER_ENCODING ? "edgebreaker" : "mesh-sequential") : (method == POINT_CLOUD_KD_TREE_ENCODING ? "kd-tree" : "pc-sequential");
  vf::DecResult dr = vf::Decode(er.bytes.data(), er.bytes.size());
  if (!dr.status.ok()) {
    if (report_c01_failures) rep.violation("decode-refuses-own-stream/" + run.cfg, desc + " :: " + dr.status.error_msg(), {{"stream.drc", er.bytes}});
    run.refuse = "decode failed";
    return run;
  }
  const PointAttribute *ta = dr.pc->GetAttributeByUniqueId(7);
  const PointAttribute *tag = dr.pc->GetAttributeByUniqueId(42);
  if (!ta || !tag || ta->data_type() != DT_FLOAT32 || tag->data_type() != DT_UINT32) {
    rep.violation("decoded-attribute-missing-or-retyped/" + run.cfg, desc, {{"stream.drc", er.bytes}});
    run.refuse = "attribute missing";
    return run;
  }
  const int nc = ta->num_components();
  for (uint32_t p = 0; p < dr.pc->num_points(); ++p) {
    uint32_t id;
    tag->GetMappedValue(PointIndex(p), &id);
    std::vector<float> v(nc);
    ta->GetMappedValue(PointIndex(p), v.data());
    run.decoded.push_back({id, v});
  }
  run.ok = true;
  return run;
}

int main(int argc, char **argv) {
  return vf::RunHarness(argc, argv, "C04", [](int64_t k, Rng &r, Reporter &rep) {
    const bool thorough = rep.args().tier == "thorough";
    const bool c12 = rep.args().prop == "C12";
    // ---- geometry -----------------------------------------------------------------
    // Smooth height field quantized to 24..30 bits and coded with Edgebreaker at speed 0/1 (constrained
    // multi-parallelogram prediction): the only way into that scheme's high-bit arithmetic. Everywhere else the
    // scheme is kept below 19 bits (AvoidHugeEntropyTables), because its entropy tracker needs memory
    // proportional to the largest residual; on a smooth regular grid the residuals stay small. An allocation cap
    // turns an unexpectedly large table into a skipped case.
#if defined(__SANITIZE_ADDRESS__)
    // Not in the sanitizer slice: at these bit depths the *encoder* of this scheme adds predictions with plain
    // signed int arithmetic (overflow UB; wraps in practice, the decoder uses AddAsUnsigned). Encoder-side UB is
    // not among the listed properties (DESIGN, generator restrictions).
    const bool smooth_hi = false, giant = false;
#else
    // "giant": the same at 30 bits, where the unchanged encoder transiently needs 8-16 GiB (entropy table indexed by a
    // residual of up to 2^32): a handful of cases per run, one at a time machine-wide (file lock), 24 GiB cap.
    const bool giant = !c12 && r.below(6000) == 0;
    const bool smooth_hi = giant || (!c12 && r.below(thorough ? 48 : 12) == 0);  // each one costs a child process and up to 512 MiB of page faults
#endif
    const bool point_cloud = !smooth_hi && r.below(3) == 0;
    vf::Topo topo;
    int smooth_bits = 0;
    if (smooth_hi) {
      // residuals of the fallback (delta) configuration are about 2^bits / w: finer grids for deeper quantization
      smooth_bits = giant ? 30 : 24 + static_cast<int>(r.below(5));
      const int lo = giant ? 14 : smooth_bits >= 27 ? 24 : 6;
      const int w = lo + r.below(giant ? 12 : thorough ? 80 : 40), h = lo + r.below(giant ? 12 : thorough ? 80 : 40);
      vf::GridPatch(topo, w, h, false, false, static_cast<float>(r.uniform(0, 3)));
      topo.name = "smooth-grid";
    }
    else if (point_cloud) topo = PointTopo(r, 2 + r.below(thorough ? 2000 : 400));
    else { do { topo = vf::GenTopo(r, r.below(5) == 0 ? 2 : (r.below(thorough ? 4 : 12) == 0 ? 4 : 3)); } while (!DropUnusedVertices(&topo)); }
    Target tg;
    GenValues(r, topo.nverts, &tg);
    if (smooth_hi) {
      tg.nc = 3; tg.style = "smooth-grid"; tg.bits = smooth_bits;
      const float sc = Mag(r), off = r.below(2) ? 0.f : static_cast<float>(r.uniform(-10, 10) * sc);
      tg.vals.resize(topo.nverts * 3);
      for (uint32_t v = 0; v < topo.nverts; ++v) for (int c = 0; c < 3; ++c) tg.vals[v * 3 + c] = topo.coord[v][c] * sc + off;
    }
    const bool target_is_position = smooth_hi || (tg.nc == 3 && r.below(2));
    // explicit quantization (always for C12, sometimes for C04)
    if (c12 || r.below(3) == 0) {
      Bound nb = MakeBound(tg);
      tg.explicit_q = true;
      tg.origin.resize(tg.nc);
      // box that contains all values: origin <= min, origin + range >= max (with values on the faces sometimes)
      const int m = r.below(3);
      double pad = m == 0 ? 0.0 : r.uniform(0, 0.5) * nb.R;
      double need = 0;
      for (int c = 0; c < tg.nc; ++c) { tg.origin[c] = static_cast<float>(nb.mn[c] - pad); if (tg.origin[c] > nb.mn[c]) tg.origin[c] = std::nextafter(tg.origin[c], -INFINITY); need = std::max(need, nb.mx[c] - tg.origin[c]); }
      tg.range = static_cast<float>(need * (m == 0 ? 1.0 : r.uniform(1.0, 3.0)));
      while (tg.range < need) tg.range = std::nextafter(tg.range, INFINITY);
      if (tg.range == 0) tg.range = 1.f;
      tg.explicit_q = true;
    }
    Built b = BuildTagged(r, topo, point_cloud, tg, target_is_position);
    auto make_opts = [&](const Built &bb) {
      vf::EncOpts o = vf::GenOpts(r, bb.g, false);
      o.qbits.assign(bb.g.atts.size(), -1);
      o.explicit_q.assign(bb.g.atts.size(), vf::EncOpts::Explicit());
      o.qbits[bb.target_att] = tg.bits;
      if (tg.explicit_q) { o.explicit_q[bb.target_att].bits = tg.bits; o.explicit_q[bb.target_att].origin = tg.origin; o.explicit_q[bb.target_att].range = tg.range; }
      if (!target_is_position && (point_cloud || r.below(2))) o.qbits[bb.g.pos_att] = 5 + r.below(12);  // position quantized too (needed for kd-tree)
      // prediction schemes admissible for the target's attribute type
      for (size_t a = 0; a < o.pred.size(); ++a) if (o.pred[a] == MESH_PREDICTION_GEOMETRIC_NORMAL) o.pred[a] = -100;
      if (smooth_hi) { o.expert = true; o.method = 1; o.enc_speed = static_cast<int>(r.below(2)); o.dec_speed = o.enc_speed; for (auto &pp : o.pred) pp = -100; o.builtin = -1; }
      else vf::AvoidHugeEntropyTables(bb.g, &o);
      return o;
    };
    vf::EncOpts o = make_opts(b);
    // The volume/sanitizer constraints (AvoidHugeEntropyTables) may lower the bit depth: the oracle follows the options actually used.
    tg.bits = (tg.explicit_q && o.explicit_q[b.target_att].bits > 0) ? o.explicit_q[b.target_att].bits : o.qbits[b.target_att];
    const std::string desc = topo.name + (point_cloud ? " pc" : " mesh") + " n=" + std::to_string(topo.nverts) + " nc=" + std::to_string(tg.nc) + " bits=" + std::to_string(tg.bits) + " style=" + tg.style +
                             (tg.explicit_q ? " explicit" : " auto") + (target_is_position ? " target=POSITION" : " target=other") + " | " + o.Describe() + ExplicitStr(tg);
    rep.note(desc);
    rep.stage(0, "values.f32", tg.vals.data(), std::min<size_t>(tg.vals.size() * 4, 1 << 20));
    Run run;
    if (smooth_hi) {
      // The constrained multi-parallelogram *encoder* can die on 27..30-bit input (a residual of INT_MIN becomes
      // symbol 2^32-1; ShannonEntropyTracker then resizes its table to 0 entries and indexes it) or ask for GiBs:
      // an encoder defect outside the listed properties. The encode runs in a child process under an allocation
      // cap; if it dies or hits the cap there is no stream to judge and the case is skipped.
      std::string enc;
      bool got = false;
      std::string why = "encoder died (smooth high-bit case skipped)";
      int fds[2];
      if (pipe(fds) == 0) {
        fflush(nullptr);
        pid_t cp = fork();
        if (cp == 0) {
          close(fds[0]);
          signal(SIGSEGV, SIG_DFL); signal(SIGABRT, SIG_DFL); signal(SIGBUS, SIG_DFL);
          std::string msg;
          try {
            int lock_fd = -1;
            if (giant) {
              lock_fd = open((vf::VerifRoot() + "/build/giant.lock").c_str(), O_CREAT | O_RDWR, 0666);
              if (lock_fd >= 0) flock(lock_fd, LOCK_EX);
              // Only with plenty of memory to spare, and as the preferred victim should memory run out anyway.
              if (!EnoughMemoryForGiant()) throw std::bad_alloc();
              int ofd = open("/proc/self/oom_score_adj", O_WRONLY);
              if (ofd >= 0) { (void)!write(ofd, "1000", 4); close(ofd); }
            }
            if (giant) vf::AllocBegin(20ll << 30, 24ll << 30); else vf::AllocBegin(512ll << 20, 1024ll << 20);
            std::unique_ptr<Mesh> m = vf::ToMesh(b.g);
            vf::EncResult er = vf::Encode(b.g, *m, m.get(), o);
            vf::AllocEnd();
            msg = er.status.ok() ? "O" + er.bytes : std::string("R") + er.status.error_msg();
          } catch (const std::bad_alloc &) { msg = "Rallocation cap (smooth high-bit case skipped)"; }
          uint64_t n = msg.size();
          (void)!write(fds[1], &n, 8);
          size_t off = 0;
          while (off < msg.size()) { ssize_t w = write(fds[1], msg.data() + off, msg.size() - off); if (w <= 0) break; off += static_cast<size_t>(w); }
          _exit(0);
        }
        close(fds[1]);
        uint64_t n = 0;
        std::string msg;
        if (read(fds[0], &n, 8) == 8 && n < (1ull << 30)) {
          msg.resize(n);
          size_t off = 0;
          while (off < n) { ssize_t rd = read(fds[0], &msg[off], n - off); if (rd <= 0) break; off += static_cast<size_t>(rd); }
          if (off == n && n > 0) { if (msg[0] == 'O') { enc = msg.substr(1); got = true; } else why = msg.substr(1); }
        }
        close(fds[0]);
        int cst = 0;
        waitpid(cp, &cst, 0);
      }
      if (giant) rep.count(got ? "giant_30bit_encoded" : "giant_30bit_skipped");
      if (got) { run = EncodeDecode(b, o, rep, desc, true, &enc); if (run.ok) rep.count("smooth_high_bits/" + std::to_string(tg.bits)); }
      else { run.ok = false; run.refuse = why; }
    } else run = EncodeDecode(b, o, rep, desc, !c12);
    if (!run.ok) { rep.count("encoder_refused/" + run.refuse); rep.held(0, false); return; }
    const Bound bd = MakeBound(tg);
    std::vector<Reporter::Artifact> arts = {{"values.f32", std::string(reinterpret_cast<const char *>(tg.vals.data()), tg.vals.size() * 4)}, {"stream.drc", run.bytes}, {"case.txt", desc}};
    const std::string qcls = std::string(tg.explicit_q ? "explicit" : "auto") + "/" + run.cfg;

    if (!c12) {
      // ---- C04: half-step bound and box containment ------------------------------------
      double worst = 0;
      for (auto &d : run.decoded) {
        if (d.first >= topo.nverts) { rep.violation("tag-out-of-range/" + run.cfg, desc, arts); return; }
        for (int c = 0; c < tg.nc; ++c) {
          const double x = tg.vals[d.first * tg.nc + c], y = d.second[c];
          if (!std::isfinite(y)) { rep.violation("decoded-not-finite/" + qcls, desc, arts); return; }
          const double err = std::fabs(y - x);
          const double lim = bd.step / 2 + bd.A;
          worst = std::max(worst, (err - bd.step / 2) / bd.A);
          if (err > lim) {
            char m[300];
            snprintf(m, sizeof m, " point_tag=%u comp=%d x=%.9g y=%.9g err=%.9g step/2=%.9g A=%.9g", d.first, c, x, y, err, bd.step / 2, bd.A);
            rep.violation("half-step-bound-exceeded/" + qcls + (bd.step / 2 > bd.A ? "/sharp" : "/float-limited"), desc + m, arts);
            return;
          }
          if (y < bd.mn[c] - bd.A || y > bd.mn[c] + bd.R + bd.A) {
            char m[300];
            snprintf(m, sizeof m, " comp=%d y=%.9g box=[%.9g,%.9g] A=%.9g", c, y, bd.mn[c], bd.mn[c] + bd.R, bd.A);
            rep.violation("decoded-outside-box/" + qcls, desc + m, arts);
            return;
          }
        }
      }
      rep.maxv("worst_excess_over_half_step_in_units_of_A", worst);
      rep.count("config/" + run.cfg);
      rep.count("bits/" + std::to_string(tg.bits));
      rep.count("style/" + tg.style);
      rep.count(std::string("range/") + (tg.explicit_q ? "explicit" : "auto"));
      rep.count(std::string("sharpness/") + (bd.step / 2 > bd.A ? "sharp" : "float-limited"));
      rep.count("values_checked", static_cast<int64_t>(run.decoded.size()) * tg.nc);
      rep.held(vf::HashBytes(run.bytes.data(), run.bytes.size()), !run.decoded.empty());
      if (r.below(300) == 0) rep.sample("{\"case\":\"" + vf::JsonEscape(desc) + "\",\"worst_excess_A\":" + std::to_string(worst) + "}");
      // ---- untagged point cloud ---------------------------------------------------------
      // The tag attribute above shares the kd-tree with the target and so hides whatever depends on the largest
      // value in the tree (bit length of the tree, level ordering). Here the cloud holds the target alone; without
      // a tag the points cannot be matched, but each component is quantized independently and monotonically, so
      // the sorted decoded values of a component must pair up with its sorted originals within the same bound.
      auto untagged = [&]() -> bool {  // true: a violation was reported
        Built u;
        u.g.is_mesh = false; u.g.family = "points-untagged"; u.g.npoints = topo.nverts; u.g.pos_att = 0;
        vf::Attr a;
        a.type = tg.nc == 3 ? GeometryAttribute::POSITION : GeometryAttribute::GENERIC; a.dt = DT_FLOAT32; a.nc = tg.nc; a.unique_id = 7; a.elem = 0; a.nvals = topo.nverts;
        a.data.resize(a.nvals * a.stride());
        memcpy(a.data.data(), tg.vals.data(), tg.vals.size() * 4);
        u.g.atts.push_back(a);
        u.target_att = 0; u.tag_att = -1;
        vf::EncOpts uo = o;
        uo.qbits.assign(1, tg.bits); uo.pred.assign(1, -100);
        uo.explicit_q.assign(1, vf::EncOpts::Explicit());
        if (tg.explicit_q) { uo.explicit_q[0].bits = tg.bits; uo.explicit_q[0].origin = tg.origin; uo.explicit_q[0].range = tg.range; }
        uo.method = r.below(4) ? 1 : -1;  // mostly kd-tree
        std::unique_ptr<PointCloud> upc = vf::ToPointCloud(u.g);
        vf::EncResult uer = vf::Encode(u.g, *upc, nullptr, uo);
        if (!uer.status.ok()) { rep.count("untagged_encoder_refused"); return false; }
        const int umethod = static_cast<uint8_t>(uer.bytes[8]);
        const std::string ucfg = umethod == POINT_CLOUD_KD_TREE_ENCODING ? "kd-tree" : "pc-sequential";
        std::vector<Reporter::Artifact> uarts = {{"values.f32", std::string(reinterpret_cast<const char *>(tg.vals.data()), tg.vals.size() * 4)}, {"stream.drc", uer.bytes}, {"case.txt", desc + " untagged " + uo.Describe()}};
        vf::DecResult udr = vf::Decode(uer.bytes.data(), uer.bytes.size());
        if (!udr.status.ok()) { rep.violation("decode-refuses-own-stream/" + ucfg + "/untagged", desc + " :: " + udr.status.error_msg(), uarts); return true; }
        const PointAttribute *ua = udr.pc->GetAttributeByUniqueId(7);
        if (!ua || ua->data_type() != DT_FLOAT32 || ua->num_components() != tg.nc || udr.pc->num_points() != topo.nverts) { rep.violation("decoded-attribute-missing-or-retyped/" + ucfg + "/untagged", desc, uarts); return true; }
        std::vector<std::vector<double>> xs(tg.nc), ys(tg.nc);
        std::vector<float> v(tg.nc);
        for (uint32_t pnt = 0; pnt < udr.pc->num_points(); ++pnt) {
          ua->GetMappedValue(PointIndex(pnt), v.data());
          for (int c = 0; c < tg.nc; ++c) { ys[c].push_back(v[c]); xs[c].push_back(tg.vals[pnt * tg.nc + c]); }
        }
        for (int c = 0; c < tg.nc; ++c) {
          std::sort(xs[c].begin(), xs[c].end()); std::sort(ys[c].begin(), ys[c].end());
          for (size_t i = 0; i < xs[c].size(); ++i) {
            const double err = std::fabs(ys[c][i] - xs[c][i]);
            if (!(err <= bd.step / 2 + bd.A)) {
              char m[300];
              snprintf(m, sizeof m, " untagged comp=%d rank=%zu x=%.9g y=%.9g err=%.9g step/2=%.9g A=%.9g", c, i, xs[c][i], ys[c][i], err, bd.step / 2, bd.A);
              rep.violation("half-step-bound-exceeded/" + std::string(tg.explicit_q ? "explicit" : "auto") + "/" + ucfg + "/untagged-marginals", desc + m, uarts);
              return true;
            }
          }
        }
        rep.count("untagged/" + ucfg);
        rep.count("untagged_bits/" + std::to_string(tg.bits));
        return false;
      };
      if (point_cloud && r.below(2) == 0 && untagged()) return;
      // NaN / Inf must make the encoder refuse (not part of the bound).
      if (r.below(8) == 0 && !tg.explicit_q) {
        Built bad = b;
        float special = r.below(2) ? NAN : (r.below(2) ? INFINITY : -INFINITY);
        size_t idx = r.below(tg.vals.size());
        memcpy(bad.g.atts[bad.target_att].data.data() + 4 * idx, &special, 4);
        Run rr = EncodeDecode(bad, o, rep, desc + " +special", false);
        if (rr.ok || rr.refuse == "decode failed") rep.violation(std::string("encoder-accepted-") + (std::isnan(special) ? "nan" : "inf") + "/" + run.cfg, desc, arts);
        else rep.count("nan_inf_refused");
      }
      return;
    }

    // ---- C12: second, independent encode of a different geometry sharing coordinates ------
    // decoded value must depend only on (coordinate, origin, range, bits)
    std::map<uint32_t, std::vector<float>> first;
    for (auto &d : run.decoded) first[d.first] = d.second;
    // grid membership via the reference dequantizer, bit-exact
    vf::RefQuant rq;
    rq.bits = tg.bits; rq.nc = tg.nc; rq.mins = tg.origin; rq.range = tg.range;
    const int64_t maxq = (1ll << tg.bits) - 1;
    for (auto &d : run.decoded) for (int c = 0; c < tg.nc; ++c) {
      const float y = d.second[c];
      // invert: k = round((y - origin)/delta); test neighbours for bit equality
      double kk = (static_cast<double>(y) - tg.origin[c]) / (static_cast<double>(tg.range) / maxq);
      int64_t k0 = static_cast<int64_t>(std::llround(kk));
      bool on_grid = false;
      // The float32 value y determines k only to about 2^(bits-22) steps; search that window. For >= 22 bits the
      // library's float "+0.5" can round the top of the box up to k = maxq+1 (still on the lattice, within C04's float allowance).
      const int64_t win = 2 + (tg.bits > 20 ? (1ll << (tg.bits - 20)) : 0);
      const int64_t kmax = maxq + (tg.bits >= 22 ? 1 : 0);  // two float roundings of (x-origin)*inv reach maxq+0.5 from 22 bits on
      for (int64_t kq = k0 - win; kq <= k0 + win && !on_grid; ++kq) {
        if (kq < 0 || kq > kmax) continue;
        float g = rq.Dequantize(static_cast<int32_t>(kq), c);
        on_grid = memcmp(&g, &y, 4) == 0;
        if (on_grid && kq > maxq) rep.count("grid_index_above_max_at_>=22_bits");
      }
      if (!on_grid) {
        char m[200];
        snprintf(m, sizeof m, " comp=%d y=%.9g nearest_k=%lld", c, y, (long long)k0);
        rep.violation("decoded-value-off-grid/" + run.cfg, desc + m, arts);
        return;
      }
    }
    // The same coordinates once more as an untagged cloud holding the target alone (mostly kd-tree): the tag attribute
    // of the runs above shares the kd-tree and hides whatever depends on the largest value in the tree. Without tags the
    // points cannot be matched one by one, but the multiset of decoded tuples must equal the tagged run's exactly.
    if (point_cloud && r.below(2) == 0) {
      Built u;
      u.g.is_mesh = false; u.g.family = "points-untagged"; u.g.npoints = topo.nverts; u.g.pos_att = 0;
      vf::Attr a;
      a.type = tg.nc == 3 ? GeometryAttribute::POSITION : GeometryAttribute::GENERIC; a.dt = DT_FLOAT32; a.nc = tg.nc; a.unique_id = 7; a.elem = 0; a.nvals = topo.nverts;
      a.data.resize(a.nvals * a.stride());
      memcpy(a.data.data(), tg.vals.data(), tg.vals.size() * 4);
      u.g.atts.push_back(a);
      vf::EncOpts uo = o;
      uo.qbits.assign(1, tg.bits); uo.pred.assign(1, -100);
      uo.explicit_q.assign(1, vf::EncOpts::Explicit());
      uo.explicit_q[0].bits = tg.bits; uo.explicit_q[0].origin = tg.origin; uo.explicit_q[0].range = tg.range;
      uo.method = r.below(4) ? 1 : -1;
      std::unique_ptr<PointCloud> upc = vf::ToPointCloud(u.g);
      vf::EncResult uer = vf::Encode(u.g, *upc, nullptr, uo);
      if (uer.status.ok()) {
        const std::string ucfg = static_cast<uint8_t>(uer.bytes[8]) == POINT_CLOUD_KD_TREE_ENCODING ? "kd-tree" : "pc-sequential";
        std::vector<Reporter::Artifact> uarts = arts;
        uarts.push_back({"untagged.drc", uer.bytes});
        vf::DecResult udr = vf::Decode(uer.bytes.data(), uer.bytes.size());
        const PointAttribute *ua = udr.status.ok() ? udr.pc->GetAttributeByUniqueId(7) : nullptr;
        if (!ua || ua->num_components() != tg.nc || ua->data_type() != DT_FLOAT32 || udr.pc->num_points() != topo.nverts || first.size() != topo.nverts) {
          if (first.size() == topo.nverts) { rep.violation("untagged-cloud-does-not-decode-to-the-same-points/" + ucfg, desc + " untagged " + uo.Describe() + (udr.status.ok() ? "" : std::string(" :: ") + udr.status.error_msg()), uarts); return; }
        } else {
          std::vector<std::vector<float>> want, got;
          for (auto &kv : first) want.push_back(kv.second);
          std::vector<float> v(tg.nc);
          for (uint32_t pnt = 0; pnt < udr.pc->num_points(); ++pnt) { ua->GetMappedValue(PointIndex(pnt), v.data()); got.push_back(v); }
          auto bitless = [](const std::vector<float> &x, const std::vector<float> &y) { return memcmp(x.data(), y.data(), 4 * x.size()) < 0; };
          std::sort(want.begin(), want.end(), bitless); std::sort(got.begin(), got.end(), bitless);
          for (size_t i = 0; i < want.size(); ++i) if (memcmp(want[i].data(), got[i].data(), 4 * tg.nc) != 0) {
            char m[200];
            snprintf(m, sizeof m, " rank=%zu tagged=%.9g untagged=%.9g", i, want[i][0], got[i][0]);
            rep.violation("shared-coordinate-decodes-differently/" + run.cfg + "-vs-untagged-" + ucfg, desc + " untagged " + uo.Describe() + m, uarts);
            return;
          }
          rep.count("untagged_pair/" + run.cfg + "-vs-" + ucfg);
        }
      } else rep.count("untagged_encoder_refused");
    }
    // second geometry: a subset/permutation of the coordinates + new interior values inside the same box
    const bool pc2 = r.below(2);
    vf::Topo topo2;
    if (pc2) topo2 = PointTopo(r, 2 + r.below(300)); else { do { topo2 = vf::GenTopo(r, r.below(3) == 0 ? 2 : 3); } while (topo2.tris.empty()); }
    Target tg2 = tg;
    tg2.vals.resize(static_cast<size_t>(topo2.nverts) * tg.nc);
    std::vector<int64_t> shared_from(topo2.nverts, -1);
    for (uint32_t v = 0; v < topo2.nverts; ++v) {
      if (r.below(2) && !first.empty()) {
        uint32_t src = static_cast<uint32_t>(r.below(topo.nverts));
        shared_from[v] = src;
        for (int c = 0; c < tg.nc; ++c) tg2.vals[v * tg.nc + c] = tg.vals[src * tg.nc + c];
      } else {
        for (int c = 0; c < tg.nc; ++c) tg2.vals[v * tg.nc + c] = static_cast<float>(tg.origin[c] + r.unit() * tg.range);
        for (int c = 0; c < tg.nc; ++c) { float &x = tg2.vals[v * tg.nc + c]; if (x < tg.origin[c]) x = tg.origin[c]; }
      }
    }
    const bool tip2 = tg.nc == 3 && r.below(2);
    Built b2 = BuildTagged(r, topo2, pc2, tg2, tip2);
    vf::EncOpts o2 = vf::GenOpts(r, b2.g, false);
    o2.qbits.assign(b2.g.atts.size(), -1);
    o2.explicit_q.assign(b2.g.atts.size(), vf::EncOpts::Explicit());
    o2.qbits[b2.target_att] = tg.bits;
    o2.explicit_q[b2.target_att].bits = tg.bits; o2.explicit_q[b2.target_att].origin = tg.origin; o2.explicit_q[b2.target_att].range = tg.range;
    if (!tip2 && (pc2 || r.below(2))) o2.qbits[b2.g.pos_att] = 5 + r.below(12);
    for (size_t a = 0; a < o2.pred.size(); ++a) if (o2.pred[a] == MESH_PREDICTION_GEOMETRIC_NORMAL) o2.pred[a] = -100;
    vf::AvoidHugeEntropyTables(b2.g, &o2);
    if (o2.explicit_q[b2.target_att].bits != tg.bits) { rep.count("second_encode_bits_constrained"); rep.held(0, false); return; }
    Run run2 = EncodeDecode(b2, o2, rep, desc + " || second: " + o2.Describe(), false);
    if (!run2.ok) { rep.count("encoder_refused_second/" + run2.refuse); rep.held(0, false); return; }
    int64_t shared = 0;
    for (auto &d : run2.decoded) {
      if (d.first >= topo2.nverts) { rep.violation("tag-out-of-range/" + run2.cfg, desc, arts); return; }
      int64_t src = shared_from[d.first];
      if (src < 0) continue;
      auto it = first.find(static_cast<uint32_t>(src));
      if (it == first.end()) continue;  // that point was dropped by the first encode (e.g. unused by faces)
      ++shared;
      if (memcmp(it->second.data(), d.second.data(), 4 * tg.nc) != 0) {
        char m[300];
        snprintf(m, sizeof m, " coordinate=(%.9g..) first=%.9g second=%.9g", tg.vals[src * tg.nc], it->second[0], d.second[0]);
        rep.violation("shared-coordinate-decodes-differently/" + run.cfg + "-vs-" + run2.cfg, desc + " || second: " + o2.Describe() + m, arts);
        return;
      }
    }
    rep.count("pair/" + run.cfg + "-vs-" + run2.cfg);
    rep.count("shared_coordinates_compared", shared);
    rep.count("grid_values_checked", static_cast<int64_t>(run.decoded.size()) * tg.nc);
    rep.count("bits/" + std::to_string(tg.bits));
    rep.held(vf::HashCombine(vf::HashBytes(run.bytes.data(), run.bytes.size()), vf::HashBytes(run2.bytes.data(), run2.bytes.size())), shared > 0);
    if (r.below(300) == 0) rep.sample("{\"case\":\"" + vf::JsonEscape(desc) + "\",\"shared\":" + std::to_string(shared) + "}");
  });
}
