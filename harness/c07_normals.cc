// C07: quantized normals decode to finite unit vectors within a bounded angle of the input;
// octahedral coordinates stay inside the q-bit square. Oracle evaluated in double precision from
// the original float input; points are matched through an unquantized uint32 tag attribute.
#include <cmath>

#include "common/canon.h"
#include "common/codec.h"
#include "common/geo.h"
#include "common/runner.h"
#include "common/trace.h"

using namespace draco;
using vf::Reporter;
using vf::Rng;

static void GenNormal(Rng &r, int style, float *n) {
  double v[3];
  auto sphere = [&]() { double z = r.uniform(-1, 1), a = r.uniform(0, 6.283185307179586), s = std::sqrt(1 - z * z); v[0] = s * std::cos(a); v[1] = s * std::sin(a); v[2] = z; };
  sphere();
  const double eps[] = {0, 1e-9, 1e-7, 1e-5, 1e-3};
  switch (style) {
    case 0: break;
    case 1: {  // axis neighbourhood
      int ax = r.below(3); double sg = r.below(2) ? 1 : -1, e = eps[r.below(5)];
      double w[3] = {r.uniform(-1, 1) * e, r.uniform(-1, 1) * e, r.uniform(-1, 1) * e};
      w[ax] = sg; v[0] = w[0]; v[1] = w[1]; v[2] = w[2]; break;
    }
    case 2: {  // octahedron edge: one component ~ 0 (x->+-0 is the fold of the octahedral map)
      int ax = r.below(3); double e = eps[r.below(5)] * (r.below(2) ? 1 : -1);
      v[ax] = e; if (r.below(4) == 0) v[ax] = r.below(2) ? 0.0 : -0.0; break;
    }
    case 3: {  // face centres (+-1,+-1,+-1) and diagonals
      for (int c = 0; c < 3; ++c) v[c] = (r.below(2) ? 1 : -1) * (1 + r.uniform(-1, 1) * eps[r.below(5)]); break;
    }
    case 4: {  // exact ties of a projection grid: rationals k/m
      int m = 1 << r.range(1, 12);
      int a = static_cast<int>(r.range(-m, m)), b = static_cast<int>(r.range(-(m - std::abs(a)), m - std::abs(a)));
      double c = (m - std::abs(a) - std::abs(b)) * (r.below(2) ? 1.0 : -1.0);
      v[0] = c / m; v[1] = static_cast<double>(a) / m; v[2] = static_cast<double>(b) / m;
      if (r.below(2)) { v[1] += 0.5 / m; }
      break;
    }
    default: break;
  }
  // lengths 1e-30 .. FLT_MAX (float range), mostly 1
  double len = 1;
  switch (r.below(9)) {
    case 0: len = 1e-30; break; case 1: len = 1e30; break; case 2: len = 1e-4; break; case 3: len = std::pow(10.0, r.uniform(-12, 12)); break;
    case 4: {  // top of the float range: the largest component at 0.3..1 x FLT_MAX (the L1 and L2 norms exceed FLT_MAX)
      const double mx = std::max(std::fabs(v[0]), std::max(std::fabs(v[1]), std::fabs(v[2])));
      if (mx > 0) len = 3.4028234e38 * r.uniform(0.3, 1.0) / mx;
      break;
    }
    default: break;
  }
  for (int c = 0; c < 3; ++c) n[c] = static_cast<float>(v[c] * len);
  if (n[0] == 0 && n[1] == 0 && n[2] == 0) n[0] = static_cast<float>(len);
}

int main(int argc, char **argv) {
  return vf::RunHarness(argc, argv, "C07", [](int64_t k, Rng &r, Reporter &rep) {
    const bool thorough = rep.args().tier == "thorough";
    const bool point_cloud = r.below(4) == 0;
    vf::Topo topo;
    if (point_cloud) {
      topo.nverts = 2 + r.below(thorough ? 3000 : 500); topo.name = "points";
      for (uint32_t i = 0; i < topo.nverts; ++i) topo.coord.push_back({static_cast<float>(r.uniform(-1, 1)), static_cast<float>(r.uniform(-1, 1)), static_cast<float>(r.uniform(-1, 1))});
    } else {
      do { topo = vf::GenTopo(r, r.below(5) == 0 ? 2 : (r.below(thorough ? 4 : 15) == 0 ? 4 : 3)); } while (topo.tris.empty());
    }
    const int bias[] = {2, 3, 4, 7, 8, 10, 12, 14, 16, 20, 24, 30};
    const int q = r.below(3) == 0 ? static_cast<int>(r.range(2, 30)) : bias[r.below(12)];
    const bool per_corner = !point_cloud && r.below(3) == 0;
    const bool int_pos = r.below(4) == 0;
    const int style_mix = r.below(6);  // 5 = mixed
    // Build geometry by hand: POSITION, NORMAL, TAG.
    vf::Geo g;
    int idx_p = 0, idx_n = 1, idx_t = 2;
    const bool two_normals = r.below(4) == 0;
    int q2 = bias[r.below(12)];
    if (q2 == q) q2 = q < 16 ? q + 6 : q - 6;
    std::vector<float> normals2;
    g.is_mesh = !point_cloud;
    g.family = topo.name;
    const size_t nvals = per_corner ? topo.tris.size() * 3 : topo.nverts;
    std::vector<float> normals(nvals * 3);
    for (size_t i = 0; i < nvals; ++i) GenNormal(r, style_mix == 5 ? static_cast<int>(r.below(5)) : style_mix, &normals[3 * i]);
    // zero-length / denormal inputs (only finiteness, unit length and range are required for them)
    if (r.below(4) == 0) { size_t i = r.below(nvals); float z[3] = {0, 0, 0}; if (r.below(2)) { z[0] = 1e-40f; z[1] = -1e-41f; } memcpy(&normals[3 * i], z, 12); }
    {
      vf::Attr p; p.type = GeometryAttribute::POSITION; p.dt = int_pos ? (r.below(2) ? DT_INT16 : DT_INT32) : DT_FLOAT32; p.nc = 3; p.unique_id = 0; p.elem = 0; p.nvals = topo.nverts;
      p.data.resize(p.nvals * p.stride());
      for (uint32_t v = 0; v < topo.nverts; ++v) for (int c = 0; c < 3; ++c) {
        if (p.dt == DT_FLOAT32) vf::PutF(p.val(v) + 4 * c, topo.coord[v][c]);
        else if (p.dt == DT_INT16) { int16_t x = static_cast<int16_t>(std::lround(topo.coord[v][c] * 1000)); memcpy(p.val(v) + 2 * c, &x, 2); }
        else { int32_t x = static_cast<int32_t>(std::lround(topo.coord[v][c] * 100000)); memcpy(p.val(v) + 4 * c, &x, 4); }
      }
      vf::Attr n; n.type = GeometryAttribute::NORMAL; n.dt = DT_FLOAT32; n.nc = 3; n.unique_id = 7; n.elem = per_corner ? 1 : 0; n.nvals = nvals;
      n.data.assign(reinterpret_cast<uint8_t *>(normals.data()), reinterpret_cast<uint8_t *>(normals.data()) + nvals * 12);
      vf::Attr t; t.type = GeometryAttribute::GENERIC; t.dt = DT_UINT32; t.nc = 1; t.unique_id = 42; t.elem = n.elem; t.nvals = nvals;
      t.data.resize(nvals * 4);
      for (uint32_t i = 0; i < nvals; ++i) memcpy(t.val(i), &i, 4);
      if (per_corner) {
        g.npoints = static_cast<uint32_t>(nvals);
        p.point_to_val.resize(nvals);
        for (size_t f = 0; f < topo.tris.size(); ++f) { g.faces.push_back({static_cast<uint32_t>(3 * f), static_cast<uint32_t>(3 * f + 1), static_cast<uint32_t>(3 * f + 2)}); for (int j = 0; j < 3; ++j) p.point_to_val[3 * f + j] = topo.tris[f][j]; }
      } else {
        g.npoints = topo.nverts;
        if (!point_cloud) g.faces = topo.tris;
      }
      // Attribute order is part of the input: NORMAL may come before POSITION (the position encoder is then created
      // after the normal encoder has asked for it as parent).
      const int orders[6][3] = {{0, 1, 2}, {0, 1, 2}, {1, 0, 2}, {2, 0, 1}, {1, 2, 0}, {2, 1, 0}};  // slot of p, n, t
      const int *ord = orders[r.below(6)];
      idx_p = ord[0]; idx_n = ord[1]; idx_t = ord[2];
      g.atts.resize(3);
      g.atts[idx_p] = p; g.atts[idx_n] = n; g.atts[idx_t] = t;
      g.pos_att = idx_p;
      // A second NORMAL attribute with its own bit count (per-attribute options: ExpertEncoder only).
      if (two_normals) {
        normals2.resize(nvals * 3);
        for (size_t i = 0; i < nvals; ++i) GenNormal(r, static_cast<int>(r.below(5)), &normals2[3 * i]);
        vf::Attr n2 = n;
        n2.unique_id = 8;
        n2.data.assign(reinterpret_cast<uint8_t *>(normals2.data()), reinterpret_cast<uint8_t *>(normals2.data()) + nvals * 12);
        g.atts.push_back(n2);
      }
    }
    vf::EncOpts o = vf::GenOpts(r, g, false);
    o.qbits.assign(g.atts.size(), -1);
    if (two_normals) { o.expert = true; o.qbits[3] = q2; o.pred.resize(4, -100); o.pred[3] = r.below(2) ? -100 : (r.below(2) ? PREDICTION_DIFFERENCE : MESH_PREDICTION_GEOMETRIC_NORMAL); }
    o.qbits[idx_n] = q;
    if (!int_pos && r.below(4) != 0) o.qbits[idx_p] = static_cast<int>(r.range(4, 20));  // quantized positions enable the geometric predictor
    if (!point_cloud && o.method == 1 && false) {}
    if (point_cloud) o.method = 0;  // kd-tree quantizes normals uniformly: outside this property
    // prediction: difference or geometric normal for the NORMAL attribute; anything admissible for the others
    const int np[] = {-100, -100, PREDICTION_DIFFERENCE, MESH_PREDICTION_GEOMETRIC_NORMAL};
    o.pred[idx_n] = np[r.below(4)];
    if (!o.expert) { o.pred[idx_p] = o.pred[idx_p] == MESH_PREDICTION_GEOMETRIC_NORMAL ? -100 : o.pred[idx_p]; o.pred[idx_t] = -100; }
    vf::AvoidHugeEntropyTables(g, &o);
    const std::string desc = topo.name + (point_cloud ? " pc" : " mesh") + " nvals=" + std::to_string(nvals) + " q=" + std::to_string(q) + (per_corner ? " per-corner" : " per-vertex") + (int_pos ? " int-pos" : " float-pos") +
                             " style=" + std::to_string(style_mix) + (two_normals ? " second-normal-q=" + std::to_string(q2) : std::string()) + " | " + o.Describe();
    rep.note(desc);
    rep.stage(0, "normals.f32", normals.data(), std::min<size_t>(normals.size() * 4, 1 << 20));
    std::unique_ptr<Mesh> mesh;
    std::unique_ptr<PointCloud> pcu;
    const PointCloud *pc;
    if (g.is_mesh) { mesh = vf::ToMesh(g); pc = mesh.get(); } else { pcu = vf::ToPointCloud(g); pc = pcu.get(); }
    vf::EncResult er = vf::Encode(g, *pc, mesh.get(), o);
    if (!er.status.ok()) { rep.count(std::string("encoder_refused/") + er.status.error_msg()); rep.held(0, false); return; }
    rep.stage(1, "stream.drc", er.bytes.data(), er.bytes.size());
    const int method = static_cast<uint8_t>(er.bytes[8]);
    const std::string cfg = g.is_mesh ? (method == MESH_EDGEBREAKER_ENCODING ? "edgebreaker" : "mesh-sequential") : "pc-sequential";
    std::vector<Reporter::Artifact> arts = {{"normals.f32", std::string(reinterpret_cast<const char *>(normals.data()), normals.size() * 4)}, {"stream.drc", er.bytes}, {"case.txt", desc}};
    vf::Trace trace;
    vf::DecResult dr = vf::Decode(er.bytes.data(), er.bytes.size());
    if (!dr.status.ok()) { rep.violation("decode-refuses-own-stream/" + cfg, desc + " :: " + dr.status.error_msg(), arts); return; }
    const PointAttribute *na = dr.pc->GetAttributeByUniqueId(7), *ta = dr.pc->GetAttributeByUniqueId(42);
    if (!na || !ta || na->data_type() != DT_FLOAT32 || na->num_components() != 3) { rep.violation("decoded-normal-attribute-missing-or-retyped/" + cfg, desc, arts); return; }
    bool geometric = false;
    for (auto &e : trace.evs) if (e.kind == draco::verif::EV_DEC_PREDICTION && e.a == MESH_PREDICTION_GEOMETRIC_NORMAL) geometric = true;
    double worst = 0;
    int64_t judged = 0, tiny = 0;
    bool violated = false;
    auto judge = [&](const PointAttribute *na, const std::vector<float> &normals, int q, const std::string &which) {
    const double bound = 3.0 * (2.0 / (std::ldexp(1.0, q) - 2.0)) + 2e-6;
    for (uint32_t p = 0; p < dr.pc->num_points(); ++p) {
      uint32_t id; float y[3];
      ta->GetMappedValue(PointIndex(p), &id);
      na->GetMappedValue(PointIndex(p), y);
      if (id >= nvals) { rep.violation("tag-out-of-range/" + cfg, desc, arts); violated = true; return; }
      const float *x = &normals[3 * id];
      char m[300];
      if (!std::isfinite(y[0]) || !std::isfinite(y[1]) || !std::isfinite(y[2])) {
        snprintf(m, sizeof m, " x=(%.9g,%.9g,%.9g) y=(%g,%g,%g)", x[0], x[1], x[2], y[0], y[1], y[2]);
        rep.violation("decoded-normal-not-finite/" + cfg + which, desc + m, arts); violated = true; return;
      }
      const double ly = std::sqrt(static_cast<double>(y[0]) * y[0] + static_cast<double>(y[1]) * y[1] + static_cast<double>(y[2]) * y[2]);
      if (std::fabs(ly - 1.0) > 1e-6) {
        snprintf(m, sizeof m, " x=(%.9g,%.9g,%.9g) y=(%.9g,%.9g,%.9g) |y|=%.9g", x[0], x[1], x[2], y[0], y[1], y[2], ly);
        rep.violation("decoded-normal-not-unit/" + cfg + which, desc + m, arts); violated = true; return;
      }
      const double l1 = std::fabs(static_cast<double>(x[0])) + std::fabs(static_cast<double>(x[1])) + std::fabs(static_cast<double>(x[2]));
      if (l1 < 1e-5) { ++tiny; continue; }  // zero-length / documented "zero" band: no angle requirement
      const double lx = std::sqrt(static_cast<double>(x[0]) * x[0] + static_cast<double>(x[1]) * x[1] + static_cast<double>(x[2]) * x[2]);
      double cr[3] = {static_cast<double>(x[1]) * y[2] - static_cast<double>(x[2]) * y[1], static_cast<double>(x[2]) * y[0] - static_cast<double>(x[0]) * y[2], static_cast<double>(x[0]) * y[1] - static_cast<double>(x[1]) * y[0]};
      const double dot = (static_cast<double>(x[0]) * y[0] + static_cast<double>(x[1]) * y[1] + static_cast<double>(x[2]) * y[2]);
      const double ang = std::atan2(std::sqrt(cr[0] * cr[0] + cr[1] * cr[1] + cr[2] * cr[2]), dot);
      (void)lx;
      ++judged;
      worst = std::max(worst, ang / bound);
      if (ang > bound) {
        snprintf(m, sizeof m, " x=(%.9g,%.9g,%.9g) y=(%.9g,%.9g,%.9g) angle=%.9g bound=%.9g", x[0], x[1], x[2], y[0], y[1], y[2], ang, bound);
        rep.violation("angle-bound-exceeded/" + cfg + (geometric ? "/geometric-normal" : "/difference") + which, desc + m, arts); violated = true; return;
      }
    }
    };
    judge(na, normals, q, "");
    if (violated) return;
    if (two_normals) {
      const PointAttribute *na2 = dr.pc->GetAttributeByUniqueId(8);
      if (!na2 || na2->data_type() != DT_FLOAT32 || na2->num_components() != 3) { rep.violation("decoded-normal-attribute-missing-or-retyped/" + cfg + "/second-normal", desc, arts); return; }
      judge(na2, normals2, q2, "/second-normal");
      if (violated) return;
      rep.count("two_normal_attributes");
    }
    // Octahedral coordinates through a skip-transform decode.
    vf::DecResult ds = vf::Decode(er.bytes.data(), er.bytes.size(), {GeometryAttribute::NORMAL});
    if (!ds.status.ok()) { rep.violation("skip-transform-decode-fails/" + cfg, desc + " :: " + ds.status.error_msg(), arts); return; }
    const PointAttribute *oa = ds.pc->GetAttributeByUniqueId(7);
    int64_t oct_checked = 0;
    if (oa && oa->num_components() == 2 && (oa->data_type() == DT_INT32 || oa->data_type() == DT_UINT32)) {
      const int64_t hi = (1ll << q) - 1;
      for (uint32_t i = 0; i < oa->size(); ++i) {
        int32_t st[2];
        oa->GetValue(AttributeValueIndex(i), st);
        for (int c = 0; c < 2; ++c) {
          if (st[c] < 0 || st[c] > hi) { rep.violation("octahedral-coordinate-outside-q-bit-square/" + cfg, desc + " value=" + std::to_string(st[c]) + " q=" + std::to_string(q), arts); return; }
          if (st[c] == hi) rep.count("octahedral_coordinate_equal_2^q-1");
        }
        ++oct_checked;
      }
    } else {
      rep.count("skip_decode_normal_not_int2");
    }
    rep.maxv("worst_angle_over_bound", worst);
    rep.count("config/" + cfg + (geometric ? "/geometric-normal" : "/difference"));
    rep.count("q/" + std::to_string(q));
    rep.count("normals_judged", judged);
    rep.count("normals_tiny_input", tiny);
    rep.count("octahedral_coordinates_checked", oct_checked);
    rep.count(std::string("positions/") + (int_pos ? "integer" : o.qbits[idx_p] > 0 ? "quantized-float" : "float"));
    rep.count(std::string("attribute_order/") + (idx_n < idx_p ? "normal-before-position" : "position-first"));
    rep.held(vf::HashBytes(er.bytes.data(), er.bytes.size()), judged > 0);
    if (r.below(300) == 0) rep.sample("{\"case\":\"" + vf::JsonEscape(desc) + "\",\"worst_angle_over_bound\":" + std::to_string(worst) + "}");
  });
}
