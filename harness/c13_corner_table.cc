// C13: the corner table built from any triangle list is a consistent manifold structure.
// Monitor: independent invariant checker (common/ct_check.h) at the quiescent point after
// CornerTable::Create, over exhaustive small lists and biased random larger lists.
#include "common/ct_check.h"
#include "common/runner.h"
#include "draco/mesh/corner_table.h"

using namespace draco;
using vf::Reporter;
using vf::Rng;

typedef std::vector<std::array<uint32_t, 3>> FaceList;

static std::string Show(const FaceList &f) {
  std::string s;
  for (size_t i = 0; i < f.size() && i < 60; ++i) s += "(" + std::to_string(f[i][0]) + "," + std::to_string(f[i][1]) + "," + std::to_string(f[i][2]) + ")";
  if (f.size() > 60) s += "...";
  return s;
}

static bool CheckList(const FaceList &faces, vf::CtScratch &s, Reporter &rep, const char *cls) {
  IndexTypeVector<FaceIndex, CornerTable::FaceType> in;
  in.resize(faces.size());  // placeholder to keep API use identical to the library's callers
  for (size_t i = 0; i < faces.size(); ++i) {
    CornerTable::FaceType ft;
    for (int j = 0; j < 3; ++j) ft[j] = VertexIndex(faces[i][j]);
    in[FaceIndex(static_cast<uint32_t>(i))] = ft;
  }
  std::unique_ptr<CornerTable> ct = CornerTable::Create(in);
  if (!ct) {
    rep.violation(std::string("create-returned-null/") + cls, Show(faces));
    return false;
  }
  std::string detail;
  const char *bad = vf::CheckCornerTable(*ct, faces, s, &detail);
  if (bad) {
    rep.violation(std::string(bad) + "/" + cls, detail + " faces=" + Show(faces), {{"faces.txt", Show(faces)}});
    return false;
  }
  return true;
}

static inline void Tri(int t, std::array<uint32_t, 3> *o) { (*o)[0] = t / 25; (*o)[1] = (t / 5) % 5; (*o)[2] = t % 5; }

static void Random(Rng &r, Reporter &rep, vf::CtScratch &s, bool thorough) {
  int nv = 3 + r.below(r.below(3) == 0 ? 40 : 7);
  int nf = r.below(4) == 0 ? 1 + r.below(10) : 10 + r.below(thorough ? 391 : 120);
  FaceList f;
  int mode = r.below(6);
  for (int i = 0; i < nf; ++i) {
    std::array<uint32_t, 3> t;
    int kind = r.below(10);
    if (!f.empty() && kind < 4) {
      // share an edge with an existing face (possibly the 3rd..6th face on that edge)
      auto &g = f[r.below(f.size())];
      int e = r.below(3);
      uint32_t a = g[e], b = g[(e + 1) % 3], c = r.below(nv);
      if (r.below(3) == 0) t = {a, b, c}; else t = {b, a, c};   // same or opposite orientation
    } else if (!f.empty() && kind == 4) {
      t = f[r.below(f.size())];                                  // exact repeat
      if (r.below(2)) std::swap(t[1], t[2]);                     // mirrored
      if (r.below(2)) { uint32_t x = t[0]; t[0] = t[1]; t[1] = t[2]; t[2] = x; }
    } else if (!f.empty() && kind == 5) {
      // bow-tie: share exactly one vertex
      t = {f[r.below(f.size())][r.below(3)], static_cast<uint32_t>(r.below(nv)), static_cast<uint32_t>(r.below(nv))};
    } else if (kind == 6) {
      uint32_t a = r.below(nv), b = r.below(nv);
      t = {a, a, b};                                             // degenerate
      if (r.below(3) == 0) t = {a, a, a};
    } else {
      t = {static_cast<uint32_t>(r.below(nv)), static_cast<uint32_t>(r.below(nv)), static_cast<uint32_t>(r.below(nv))};
    }
    f.push_back(t);
  }
  if (mode == 0) {  // closed fan + fin: umbrella around vertex 0 plus extra faces on one spoke
    f.clear();
    int n = 3 + r.below(8);
    for (int i = 0; i < n; ++i) f.push_back({0u, static_cast<uint32_t>(1 + i), static_cast<uint32_t>(1 + (i + 1) % n)});
    int fins = 1 + r.below(3);
    for (int i = 0; i < fins; ++i) f.push_back({0u, static_cast<uint32_t>(1 + r.below(n)), static_cast<uint32_t>(n + 1 + i)});
  }
  bool ok = CheckList(f, s, rep, "random");
  if (ok) {
    rep.count("random_lists");
    rep.count("random_faces", f.size());
    rep.held(vf::HashBytes(f.data(), f.size() * 12), true);
    if (r.below(500) == 0) rep.sample("{\"faces\":\"" + Show(f).substr(0, 200) + "\"}");
  }
}

int main(int argc, char **argv) {
  return vf::RunHarness(argc, argv, "C13", [](int64_t k, Rng &r, Reporter &rep) {
    static vf::CtScratch s;
    const bool thorough = rep.args().tier == "thorough";
    const int64_t kPairs = 125 * 125;
    if (k < kPairs) {
      // all lists [t1], [t1,t2], [t1,t2,t3] with this (t1,t2) prefix, each list exactly once overall
      int t1 = static_cast<int>(k / 125), t2 = static_cast<int>(k % 125);
      FaceList f(1);
      Tri(t1, &f[0]);
      int64_t n = 0;
      if (t2 == 0) { if (!CheckList(f, s, rep, "exhaustive<=3")) return; ++n; }
      f.resize(2);
      Tri(t2, &f[1]);
      if (!CheckList(f, s, rep, "exhaustive<=3")) return;
      ++n;
      f.resize(3);
      for (int t3 = 0; t3 < 125; ++t3) { Tri(t3, &f[2]); if (!CheckList(f, s, rep, "exhaustive<=3")) return; ++n; }
      rep.count("exhaustive_lists_le3", n);
      rep.held(vf::HashCombine(0x13a, k), true);
      return;
    }
    k -= kPairs;
    if (thorough && k < kPairs) {
      int t1 = static_cast<int>(k / 125), t2 = static_cast<int>(k % 125);
      FaceList f(4);
      Tri(t1, &f[0]);
      Tri(t2, &f[1]);
      int64_t n = 0;
      for (int t3 = 0; t3 < 125; ++t3) {
        Tri(t3, &f[2]);
        for (int t4 = 0; t4 < 125; ++t4) { Tri(t4, &f[3]); if (!CheckList(f, s, rep, "exhaustive=4")) return; ++n; }
      }
      rep.count("exhaustive_lists_eq4", n);
      rep.held(vf::HashCombine(0x13b, k), true);
      return;
    }
    if (thorough) k -= kPairs;
    Random(r, rep, s, thorough);
  });
}
