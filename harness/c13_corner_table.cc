// C13: the corner table built from any triangle list is a consistent manifold structure.
// Monitor: independent invariant checker (common/ct_check.h) at the quiescent point after
// CornerTable::Create, over exhaustive small lists and biased random larger lists.
#include "common/ct_check.h"
#include "common/runner.h"
#include "common/geo.h"
#include "draco/mesh/corner_table.h"
#include "draco/mesh/mesh_attribute_corner_table.h"
#include "draco/mesh/mesh_misc_functions.h"

using namespace draco;
using vf::Reporter;
using vf::Rng;

typedef std::vector<std::array<uint32_t, 3>> FaceList;

static std::string Show(const FaceList &f) {
  std::string s;
  for (size_t i = 0; i < f.size() && i < 60; ++i) s += "(" + std::to_string(f[i][0]) + "," + std::to_string(f[i][1]) + "," + std::to_string(f[i][2]) + ")";
  if (f.size() > 60) s += "...";
  return s;
}

static bool CheckList(const FaceList &faces, vf::CtScratch &s, Reporter &rep, const char *cls) {
  IndexTypeVector<FaceIndex, CornerTable::FaceType> in;
  in.resize(faces.size());  // placeholder to keep API use identical to the library's callers
  for (size_t i = 0; i < faces.size(); ++i) {
    CornerTable::FaceType ft;
    for (int j = 0; j < 3; ++j) ft[j] = VertexIndex(faces[i][j]);
    in[FaceIndex(static_cast<uint32_t>(i))] = ft;
  }
  std::unique_ptr<CornerTable> ct = CornerTable::Create(in);
  if (!ct) {
    rep.violation(std::string("create-returned-null/") + cls, Show(faces));
    return false;
  }
  std::string detail;
  const char *bad = vf::CheckCornerTable(*ct, faces, s, &detail);
  if (bad) {
    rep.violation(std::string(bad) + "/" + cls, detail + " faces=" + Show(faces), {{"faces.txt", Show(faces)}});
    return false;
  }
  return true;
}

static inline void Tri(int t, std::array<uint32_t, 3> *o) { (*o)[0] = t / 25; (*o)[1] = (t / 5) % 5; (*o)[2] = t % 5; }

static void Random(Rng &r, Reporter &rep, vf::CtScratch &s, bool thorough) {
  int nv = 3 + r.below(r.below(3) == 0 ? 40 : 7);
  int nf = r.below(4) == 0 ? 1 + r.below(10) : 10 + r.below(thorough ? 391 : 120);
  FaceList f;
  int mode = r.below(6);
  for (int i = 0; i < nf; ++i) {
    std::array<uint32_t, 3> t;
    int kind = r.below(10);
    if (!f.empty() && kind < 4) {
      // share an edge with an existing face (possibly the 3rd..6th face on that edge)
      auto &g = f[r.below(f.size())];
      int e = r.below(3);
      uint32_t a = g[e], b = g[(e + 1) % 3], c = r.below(nv);
      if (r.below(3) == 0) t = {a, b, c}; else t = {b, a, c};   // same or opposite orientation
    } else if (!f.empty() && kind == 4) {
      t = f[r.below(f.size())];                                  // exact repeat
      if (r.below(2)) std::swap(t[1], t[2]);                     // mirrored
      if (r.below(2)) { uint32_t x = t[0]; t[0] = t[1]; t[1] = t[2]; t[2] = x; }
    } else if (!f.empty() && kind == 5) {
      // bow-tie: share exactly one vertex
      t = {f[r.below(f.size())][r.below(3)], static_cast<uint32_t>(r.below(nv)), static_cast<uint32_t>(r.below(nv))};
    } else if (kind == 6) {
      uint32_t a = r.below(nv), b = r.below(nv);
      t = {a, a, b};                                             // degenerate
      if (r.below(3) == 0) t = {a, a, a};
    } else {
      t = {static_cast<uint32_t>(r.below(nv)), static_cast<uint32_t>(r.below(nv)), static_cast<uint32_t>(r.below(nv))};
    }
    f.push_back(t);
  }
  if (mode == 0) {  // closed fan + fin: umbrella around vertex 0 plus extra faces on one spoke
    f.clear();
    int n = 3 + r.below(8);
    for (int i = 0; i < n; ++i) f.push_back({0u, static_cast<uint32_t>(1 + i), static_cast<uint32_t>(1 + (i + 1) % n)});
    int fins = 1 + r.below(3);
    for (int i = 0; i < fins; ++i) f.push_back({0u, static_cast<uint32_t>(1 + r.below(n)), static_cast<uint32_t>(n + 1 + i)});
  }
  bool ok = CheckList(f, s, rep, "random");
  if (ok) {
    rep.count("random_lists");
    rep.count("random_faces", f.size());
    rep.held(vf::HashBytes(f.data(), f.size() * 12), true);
    if (r.below(500) == 0) rep.sample("{\"faces\":\"" + Show(f).substr(0, 200) + "\"}");
  }
}

// Corner tables derived from meshes (position attribute / all attributes) and the per-attribute
// corner table with seams.
static void MeshTables(Rng &r, Reporter &rep, vf::CtScratch &s) {
  vf::GenParams gp;
  gp.size_class = r.below(3) == 0 ? 3 : 2;
  gp.narrow_int32 = true;
  vf::Geo g = vf::GenGeo(r, gp);
  if (g.faces.empty()) { rep.held(0, false); return; }
  std::unique_ptr<Mesh> mesh = vf::ToMesh(g);
  const std::string desc = g.family + " np=" + std::to_string(g.npoints) + " nf=" + std::to_string(g.faces.size()) + " na=" + std::to_string(g.atts.size());
  const PointAttribute *pos = mesh->GetNamedAttribute(GeometryAttribute::POSITION);
  for (int mode = 0; mode < 2; ++mode) {
    std::unique_ptr<CornerTable> ct = mode == 0 ? CreateCornerTableFromPositionAttribute(mesh.get()) : CreateCornerTableFromAllAttributes(mesh.get());
    if (!ct) { rep.violation(std::string("mesh-table/create-returned-null/") + (mode ? "all-attributes" : "position"), desc); return; }
    FaceList faces;
    for (auto &f : g.faces) faces.push_back(mode == 0 ? std::array<uint32_t, 3>{pos->mapped_index(PointIndex(f[0])).value(), pos->mapped_index(PointIndex(f[1])).value(), pos->mapped_index(PointIndex(f[2])).value()} : f);
    std::string detail;
    const char *bad = vf::CheckCornerTable(*ct, faces, s, &detail);
    if (bad) { rep.violation(std::string(bad) + "/mesh-table-" + (mode ? "all-attributes" : "position"), desc + " :: " + detail); return; }
    rep.count(mode ? "mesh_tables/all-attributes" : "mesh_tables/position");
    if (mode == 1) continue;
    // attribute corner tables on top of the position table
    for (int a = 0; a < mesh->num_attributes(); ++a) {
      const PointAttribute *att = mesh->attribute(a);
      if (att == pos) continue;
      MeshAttributeCornerTable act;
      if (!act.InitFromAttribute(mesh.get(), ct.get(), att)) { rep.violation("attribute-table/init-failed", desc); return; }
      const int nc = ct->num_corners();
      bool any_seam = false;
      for (int ci = 0; ci < nc; ++ci) {
        const CornerIndex c(ci);
        if (ct->IsDegenerated(ct->Face(c))) continue;
        const CornerIndex o = ct->Opposite(c);
        const bool seam = act.IsCornerOppositeToSeamEdge(c);
        if (o == kInvalidCornerIndex) { if (!seam) { rep.violation("attribute-table/boundary-edge-not-marked-as-seam", desc + " corner " + std::to_string(ci)); return; } continue; }
        if (seam != act.IsCornerOppositeToSeamEdge(o)) { rep.violation("attribute-table/seam-not-symmetric", desc + " corner " + std::to_string(ci)); return; }
        if (seam && act.Opposite(c) != kInvalidCornerIndex) { rep.violation("attribute-table/opposite-across-seam", desc); return; }
        if (!seam && act.Opposite(c) != o) { rep.violation("attribute-table/opposite-differs-without-seam", desc); return; }
        // a seam is exactly an edge whose end points carry different attribute values on the two sides
        const AttributeValueIndex a0 = att->mapped_index(mesh->CornerToPointId(ct->Next(c))), a1 = att->mapped_index(mesh->CornerToPointId(ct->Previous(c)));
        const AttributeValueIndex b0 = att->mapped_index(mesh->CornerToPointId(ct->Previous(o))), b1 = att->mapped_index(mesh->CornerToPointId(ct->Next(o)));
        const bool differs = a0 != b0 || a1 != b1;
        if (differs != seam) { rep.violation(std::string("attribute-table/") + (seam ? "seam-without-value-difference" : "value-difference-without-seam"), desc + " att " + std::to_string(a) + " corner " + std::to_string(ci)); return; }
        any_seam |= seam;
      }
      // all corners mapped to one attribute vertex carry one attribute value; fans are reachable
      std::vector<int64_t> value_of(act.num_vertices(), -1);
      for (int ci = 0; ci < nc; ++ci) {
        const CornerIndex c(ci);
        if (ct->IsDegenerated(ct->Face(c))) continue;
        const VertexIndex v = act.Vertex(c);
        if (v == kInvalidVertexIndex || v.value() >= static_cast<uint32_t>(act.num_vertices())) { rep.violation("attribute-table/vertex-out-of-range", desc); return; }
        const int64_t val = att->mapped_index(mesh->CornerToPointId(c)).value();
        if (value_of[v.value()] < 0) value_of[v.value()] = val;
        else if (value_of[v.value()] != val) { rep.violation("attribute-table/one-attribute-vertex-two-values", desc + " att " + std::to_string(a)); return; }
        // (MeshAttributeCornerTable::VertexParent returns the attribute *entry* the vertex was created for)
        if (act.VertexParent(v).value() != static_cast<uint32_t>(val)) { rep.violation("attribute-table/vertex-parent-is-not-the-attribute-entry", desc); return; }
      }
      for (int vi = 0; vi < act.num_vertices(); ++vi) {
        CornerIndex lm = act.LeftMostCorner(VertexIndex(vi));
        if (lm == kInvalidCornerIndex) continue;
        int steps = 0;
        CornerIndex c = lm;
        while (c != kInvalidCornerIndex) {
          if (++steps > nc) { rep.violation("attribute-table/fan-walk-does-not-terminate", desc); return; }
          if (act.Vertex(c) != VertexIndex(vi)) { rep.violation("attribute-table/fan-leaves-vertex", desc); return; }
          c = act.SwingRight(c);
          if (c == lm) break;
        }
      }
      rep.count(any_seam ? "attribute_tables/with-seams" : "attribute_tables/without-seams");
    }
  }
  rep.held(vf::HashBytes(g.faces.data(), g.faces.size() * 12, 77), true);
}

int main(int argc, char **argv) {
  return vf::RunHarness(argc, argv, "C13", [](int64_t k, Rng &r, Reporter &rep) {
    static vf::CtScratch s;
    const bool thorough = rep.args().tier == "thorough";
    const int64_t kPairs = 125 * 125;
    if (k < kPairs) {
      // all lists [t1], [t1,t2], [t1,t2,t3] with this (t1,t2) prefix, each list exactly once overall
      int t1 = static_cast<int>(k / 125), t2 = static_cast<int>(k % 125);
      FaceList f(1);
      Tri(t1, &f[0]);
      int64_t n = 0;
      if (t2 == 0) { if (!CheckList(f, s, rep, "exhaustive<=3")) return; ++n; }
      f.resize(2);
      Tri(t2, &f[1]);
      if (!CheckList(f, s, rep, "exhaustive<=3")) return;
      ++n;
      f.resize(3);
      for (int t3 = 0; t3 < 125; ++t3) { Tri(t3, &f[2]); if (!CheckList(f, s, rep, "exhaustive<=3")) return; ++n; }
      rep.count("exhaustive_lists_le3", n);
      rep.held(vf::HashCombine(0x13a, k), true);
      return;
    }
    k -= kPairs;
    if (thorough && k < kPairs) {
      int t1 = static_cast<int>(k / 125), t2 = static_cast<int>(k % 125);
      FaceList f(4);
      Tri(t1, &f[0]);
      Tri(t2, &f[1]);
      int64_t n = 0;
      for (int t3 = 0; t3 < 125; ++t3) {
        Tri(t3, &f[2]);
        for (int t4 = 0; t4 < 125; ++t4) { Tri(t4, &f[3]); if (!CheckList(f, s, rep, "exhaustive=4")) return; ++n; }
      }
      rep.count("exhaustive_lists_eq4", n);
      rep.held(vf::HashCombine(0x13b, k), true);
      return;
    }
    if (thorough) k -= kPairs;
    if (k % 3 == 2) MeshTables(r, rep, s); else Random(r, rep, s, thorough);
  });
}
