// C11: geometry and attribute metadata survive the round trip (or the encoder refuses).
// Oracle: independent recursive comparison of the decoded tree with the input tree.
#include "common/codec.h"
#include "common/geo.h"
#include "common/runner.h"
#include "draco/metadata/geometry_metadata.h"
#include "draco/metadata/metadata.h"

using namespace draco;
using vf::Reporter;
using vf::Rng;

struct Stats { int64_t entries = 0, subs = 0, max_depth = 0, long_names = 0, empty_values = 0, bytes = 0, empty_names = 0; };

static std::string RandName(Rng &r, Stats &st) {
  size_t len;
  switch (r.below(16)) {
    case 0: len = r.below(2) ? 0 : 1; break;
    case 1: len = 1; break;
    case 2: len = 254; break;
    case 3: len = 255; break;
    case 4: len = r.below(12) == 0 ? 256 : 255; break;
    case 5: len = r.below(12) == 0 ? 300 : 200; break;
    default: len = 1 + r.below(12); break;
  }
  if (len > 255) ++st.long_names;
  if (len == 0) ++st.empty_names;
  std::string s(len, 'a');
  int mode = r.below(3);
  for (auto &c : s) c = mode == 0 ? static_cast<char>('a' + r.below(26)) : mode == 1 ? static_cast<char>(r.below(256)) : static_cast<char>(r.below(4) == 0 ? 0 : 0x80 + r.below(0x80));
  return s;
}

static size_t RandLen(Rng &r, bool thorough) {
  switch (r.below(10)) {
#if defined(__SANITIZE_ADDRESS__)
    // EntryValue's constructors form &v[0] of an empty container before a 0-byte memcpy (UBSan: null reference in
    // libstdc++'s operator[]; caller-side API, no encode/decode path). Empty values are exercised in the plain variant.
    case 0: return 2 + r.below(7);
#else
    case 0: return r.below(8) == 0 ? 0 : 2 + r.below(7);
#endif
    case 1: return 1;
    case 2: return 127 + r.below(3);
    case 3: return 16383 + r.below(3);
    case 4: return thorough ? 65536 : 20000;
#if defined(__SANITIZE_ADDRESS__)
    default: return 1 + r.below(63);
#else
    default: return r.below(64);
#endif
  }
}

static void Fill(Rng &r, Metadata *m, int depth, int max_depth, int *budget, bool thorough, const std::vector<std::string> &pool, Stats &st) {
  st.max_depth = std::max<int64_t>(st.max_depth, depth);
  auto add_entries = [&]() {
    int ne = r.below(4) == 0 ? 0 : static_cast<int>(r.below(r.below(5) == 0 ? 40 : 6));
    for (int i = 0; i < ne && *budget > 0; ++i, --*budget) {
      std::string name = (!pool.empty() && r.below(3) == 0) ? pool[r.below(pool.size())] : RandName(r, st);
      ++st.entries;
      switch (r.below(7)) {
        case 0: m->AddEntryInt(name, static_cast<int32_t>(r.u32())); break;
        case 1: m->AddEntryDouble(name, r.below(3) == 0 ? NAN : r.gauss() * 1e10); break;
        case 2: { std::vector<int32_t> v((RandLen(r, thorough) + 3) / 4); for (auto &x : v) x = static_cast<int32_t>(r.u32()); if (v.empty()) ++st.empty_values; m->AddEntryIntArray(name, v); break; }
        case 3: { std::vector<double> v((RandLen(r, thorough) + 7) / 8); for (auto &x : v) x = r.gauss(); if (v.empty()) ++st.empty_values; m->AddEntryDoubleArray(name, v); break; }
        case 4: { std::string s(RandLen(r, thorough), 'x'); for (auto &c : s) c = static_cast<char>(1 + r.below(255)); if (s.empty()) ++st.empty_values; m->AddEntryString(name, s); break; }
        default: { std::vector<uint8_t> v(RandLen(r, thorough)); for (auto &x : v) x = static_cast<uint8_t>(r.below(256)); if (v.empty()) ++st.empty_values; m->AddEntryBinary(name, v); break; }
      }
    }
  };
  auto add_subs = [&]() {
    if (depth >= max_depth) return;
    int ns = static_cast<int>(r.below(depth == 0 ? 4 : 3));
    if (r.below(20) == 0) ns = 10 + r.below(30);
    for (int i = 0; i < ns && *budget > 0; ++i, --*budget) {
      std::string name = (!pool.empty() && r.below(3) == 0) ? pool[r.below(pool.size())] : RandName(r, st);
      std::unique_ptr<Metadata> sub(new Metadata());
      Fill(r, sub.get(), depth + 1, max_depth, budget, thorough, pool, st);
      if (m->AddSubMetadata(name, std::move(sub))) ++st.subs;
    }
  };
  // The order in which a node receives its entries and its sub-metadata is the caller's choice (names come from a
  // shared pool, so an entry and a sub-metadata of one node may carry the same name).
  if (r.below(2)) { add_entries(); add_subs(); } else { add_subs(); add_entries(); }
}

// Exact classification of the final tree (names may come from the reuse pool).
static void Classify(const Metadata &m, int64_t *long_names, int64_t *empty_values) {
  for (auto &e : m.entries()) { if (e.first.size() > 255) ++*long_names; if (e.second.data().empty()) ++*empty_values; }
  for (auto &sm : m.sub_metadatas()) { if (sm.first.size() > 255) ++*long_names; Classify(*sm.second, long_names, empty_values); }
}

static std::string Compare(const Metadata &a, const Metadata &b, const std::string &path) {
  if (a.entries().size() != b.entries().size()) return path + ": entry count " + std::to_string(a.entries().size()) + " vs " + std::to_string(b.entries().size());
  auto ia = a.entries().begin();
  auto ib = b.entries().begin();
  for (; ia != a.entries().end(); ++ia, ++ib) {
    if (ia->first != ib->first) return path + ": entry name differs (" + vf::Hex(reinterpret_cast<const uint8_t *>(ia->first.data()), ia->first.size(), 24) + " vs " + vf::Hex(reinterpret_cast<const uint8_t *>(ib->first.data()), ib->first.size(), 24) + ")";
    if (ia->second.data() != ib->second.data()) return path + ": entry value differs (size " + std::to_string(ia->second.data().size()) + " vs " + std::to_string(ib->second.data().size()) + ")";
  }
  if (a.sub_metadatas().size() != b.sub_metadatas().size()) return path + ": sub-metadata count " + std::to_string(a.sub_metadatas().size()) + " vs " + std::to_string(b.sub_metadatas().size());
  auto sa = a.sub_metadatas().begin();
  auto sb = b.sub_metadatas().begin();
  for (; sa != a.sub_metadatas().end(); ++sa, ++sb) {
    if (sa->first != sb->first) return path + ": sub-metadata name differs";
    std::string r = Compare(*sa->second, *sb->second, path + "/" + std::to_string(std::distance(a.sub_metadatas().begin(), sa)));
    if (!r.empty()) return r;
  }
  return "";
}

int main(int argc, char **argv) {
  return vf::RunHarness(argc, argv, "C11", [](int64_t k, Rng &r, Reporter &rep) {
    const bool thorough = rep.args().tier == "thorough";
    vf::GenParams gp;
    gp.point_cloud = r.below(2) == 0;
    gp.size_class = 1 + r.below(2);
    gp.max_extra_atts = 2;
    gp.allow_special_floats = false;
    gp.narrow_int32 = true;
    vf::Geo g = vf::GenGeo(r, gp);
    vf::EncOpts o = vf::GenOpts(r, g);
    vf::AvoidHugeEntropyTables(g, &o);
    std::unique_ptr<Mesh> mesh;
    std::unique_ptr<PointCloud> pcu;
    PointCloud *pc;
    if (g.is_mesh) { mesh = vf::ToMesh(g); pc = mesh.get(); } else { pcu = vf::ToPointCloud(g); pc = pcu.get(); }
    Stats st;
    std::vector<std::string> pool;
    for (int i = 0; i < 3; ++i) pool.push_back(RandName(r, st));
    st = Stats();
    std::unique_ptr<GeometryMetadata> gm(new GeometryMetadata());
    int budget = thorough ? 400 : 120;
    const int max_depth = r.below(4) == 0 ? 0 : static_cast<int>(r.below(9));
    Fill(r, gm.get(), 0, max_depth, &budget, thorough, pool, st);
    const int natt = static_cast<int>(r.below(6));
    for (int i = 0; i < natt; ++i) {
      std::unique_ptr<AttributeMetadata> am(new AttributeMetadata());
      am->set_att_unique_id(r.below(2) && !g.atts.empty() ? g.atts[r.below(g.atts.size())].unique_id : r.u32() >> r.below(32));
      int b2 = 10;
      Fill(r, am.get(), 0, static_cast<int>(r.below(3)), &b2, thorough, pool, st);
      gm->AddAttributeMetadata(std::move(am));
    }
    GeometryMetadata reference(*gm);  // deep copy kept as the oracle's input tree
    pc->AddMetadata(std::move(gm));
    // Some attribute metadata is attached the way an application does it, through PointCloud::AddAttributeMetadata(att_id, ...)
    // on the finished geometry: it must come back under the unique id of that attribute (which need not equal att_id).
    const int nlate = g.atts.empty() ? 0 : static_cast<int>(r.below(3));
    for (int i = 0; i < nlate; ++i) {
      const vf::Attr &src = g.atts[r.below(g.atts.size())];
      const int att_id = pc->GetAttributeIdByUniqueId(src.unique_id);
      if (att_id < 0) continue;
      std::unique_ptr<AttributeMetadata> am(new AttributeMetadata());
      int b2 = 10;
      Fill(r, am.get(), 0, static_cast<int>(r.below(3)), &b2, thorough, pool, st);
      std::unique_ptr<AttributeMetadata> expect(new AttributeMetadata(*am));
      expect->set_att_unique_id(pc->attribute(att_id)->unique_id());
      reference.AddAttributeMetadata(std::move(expect));
      pc->AddAttributeMetadata(att_id, std::move(am));
      rep.count(static_cast<uint32_t>(att_id) == src.unique_id ? "attribute_metadata_added_through_point_cloud/unique-id-equals-index" : "attribute_metadata_added_through_point_cloud/unique-id-differs-from-index");
    }
    st.long_names = st.empty_values = 0;
    Classify(reference, &st.long_names, &st.empty_values);
    for (auto &am : reference.attribute_metadatas()) Classify(*am, &st.long_names, &st.empty_values);
    char d[300];
    snprintf(d, sizeof d, "%s entries=%lld subs=%lld depth=%lld attmeta=%d long_names=%lld empty_values=%lld | %s", g.is_mesh ? "mesh" : "pc", (long long)st.entries, (long long)st.subs, (long long)st.max_depth, natt + nlate,
             (long long)st.long_names, (long long)st.empty_values, o.Describe().c_str());
    const std::string desc = d;
    rep.note(desc);
    vf::EncResult er = vf::Encode(g, *pc, mesh.get(), o);
    const std::string cls = std::string(st.long_names ? "name>255" : "names<=255") + (st.empty_values ? "/empty-value" : "/no-empty-value");
    if (!er.status.ok()) {
      rep.count(std::string("encoder_refused/") + er.status.error_msg() + "/" + cls);
      rep.held(0, false);
      return;
    }
    rep.stage(0, "stream.drc", er.bytes.data(), er.bytes.size());
    vf::DecResult dr = vf::Decode(er.bytes.data(), er.bytes.size());
    std::vector<Reporter::Artifact> arts = {{"stream.drc", er.bytes}, {"case.txt", desc}};
    if (!dr.status.ok()) { rep.violation("encoder-accepted-but-stream-undecodable/" + cls, desc + " :: " + dr.status.error_msg(), arts); return; }
    const GeometryMetadata *out = dr.pc->GetMetadata();
    if (!out) { rep.violation("metadata-missing-after-decode/" + cls, desc, arts); return; }
    std::string bad = Compare(reference, *out, "root");
    if (bad.empty()) {
      const auto &ra = reference.attribute_metadatas();
      const auto &oa = out->attribute_metadatas();
      if (ra.size() != oa.size()) bad = "attribute metadata count " + std::to_string(ra.size()) + " vs " + std::to_string(oa.size());
      for (size_t i = 0; bad.empty() && i < ra.size(); ++i) {
        if (ra[i]->att_unique_id() != oa[i]->att_unique_id()) bad = "attribute metadata " + std::to_string(i) + " unique id " + std::to_string(ra[i]->att_unique_id()) + " vs " + std::to_string(oa[i]->att_unique_id());
        else bad = Compare(*ra[i], *oa[i], "att" + std::to_string(i));
      }
    }
    // Attribute metadata stays attached to *its* attribute: the attribute the decoded geometry holds under that unique
    // id is the one the source geometry holds under it (same type, data type, component count).
    if (bad.empty()) {
      for (auto &am : out->attribute_metadatas()) {
        const uint32_t uid = am->att_unique_id();
        const vf::Attr *src = nullptr;
        for (auto &a : g.atts) if (a.unique_id == uid) src = &a;
        const int did = dr.pc->GetAttributeIdByUniqueId(uid);
        if (src == nullptr) { if (did >= 0) bad = "attribute metadata for unique id " + std::to_string(uid) + ", which no source attribute has, is attached to decoded attribute " + std::to_string(did); continue; }
        if (did < 0) { bad = "attribute metadata for unique id " + std::to_string(uid) + " is attached to no decoded attribute"; break; }
        const PointAttribute *da = dr.pc->attribute(did);
        if (da->attribute_type() != src->type || da->num_components() != src->nc || da->data_type() != src->dt) { bad = "attribute metadata for unique id " + std::to_string(uid) + " is now attached to a different attribute (type " + std::to_string(da->attribute_type()) + " vs " + std::to_string(src->type) + ")"; break; }
        rep.count("attribute_metadata_links_checked");
      }
    }
    if (!bad.empty()) { rep.violation("metadata-altered/" + cls, desc + " :: " + bad, arts); return; }
    const int method = static_cast<uint8_t>(er.bytes[8]);
    rep.count(std::string("config/") + (g.is_mesh ? (method == MESH_EDGEBREAKER_ENCODING ? "edgebreaker" : "mesh-sequential") : (method == POINT_CLOUD_KD_TREE_ENCODING ? "kd-tree" : "pc-sequential")));
    rep.count("entries", st.entries);
    rep.count("sub_metadata", st.subs);
    rep.count("attribute_metadata", natt);
    rep.count("depth/" + std::to_string(st.max_depth));
    rep.count("empty_names", st.empty_names);
    rep.held(vf::HashBytes(er.bytes.data(), er.bytes.size()), st.entries + st.subs + natt > 0);
    if (r.below(300) == 0) rep.sample("{\"case\":\"" + vf::JsonEscape(desc) + "\"}");
  });
}
