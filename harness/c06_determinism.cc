// C06: encoding and decoding are deterministic functions of their inputs.
// Differential monitor: the same (geometry, options) / the same bytes are executed under
// perturbations (heap poison 0x00/0xFF/seed byte, freed-memory poison, allocation size jitter,
// object reuse histories, another thread, another process with ASLR on/off, trailing bytes) and
// every execution must give byte-identical output / identical ordered digests, and a successful
// decode must consume exactly the stream.
#include <dirent.h>
#include <fstream>
#include <malloc.h>
#include <sys/personality.h>

#include <atomic>
#include <cmath>
#include <thread>

#include "common/canon.h"
#include "draco/compression/point_cloud/algorithms/float_points_tree_encoder.h"
#include "common/codec.h"
#include "common/geo.h"
#include "common/runner.h"

using namespace draco;
using vf::Reporter;
using vf::Rng;

// ---- allocation perturbation ---------------------------------------------------------
static std::atomic<int> g_mode{0};       // 0 off, 1 poison 0x00, 2 poison 0xFF, 3 seed byte, 4 seed byte + size jitter
static std::atomic<int> g_byte{0xA5};
static std::atomic<uint64_t> g_jit{1};
static inline void *PerturbedAlloc(size_t n) {
  const int m = g_mode.load(std::memory_order_relaxed);
  size_t pad = 0;
  if (m == 4) { uint64_t x = g_jit.fetch_add(0x9e3779b97f4a7c15ull, std::memory_order_relaxed); pad = ((x >> 33) % 5) * 16; }
  void *p = malloc(n + pad ? n + pad : 1);
  if (!p) throw std::bad_alloc();
  if (m) memset(p, m == 1 ? 0x00 : m == 2 ? 0xFF : g_byte.load(std::memory_order_relaxed), malloc_usable_size(p));
  return p;
}
static inline void PerturbedFree(void *p) {
  if (!p) return;
  if (g_mode.load(std::memory_order_relaxed)) memset(p, 0xDD, malloc_usable_size(p));
  free(p);
}
void *operator new(size_t n) { return PerturbedAlloc(n); }
void *operator new[](size_t n) { return PerturbedAlloc(n); }
void *operator new(size_t n, const std::nothrow_t &) noexcept { try { return PerturbedAlloc(n); } catch (...) { return nullptr; } }
void *operator new[](size_t n, const std::nothrow_t &) noexcept { try { return PerturbedAlloc(n); } catch (...) { return nullptr; } }
void operator delete(void *p, const std::nothrow_t &) noexcept { PerturbedFree(p); }
void operator delete[](void *p, const std::nothrow_t &) noexcept { PerturbedFree(p); }
void operator delete(void *p) noexcept { PerturbedFree(p); }
void operator delete[](void *p) noexcept { PerturbedFree(p); }
void operator delete(void *p, size_t) noexcept { PerturbedFree(p); }
void operator delete[](void *p, size_t) noexcept { PerturbedFree(p); }

struct ModeGuard {
  explicit ModeGuard(int m, int byte = 0xA5) { g_byte = byte; g_mode = m; }
  ~ModeGuard() { g_mode = 0; }
};

struct Case {
  vf::Geo g;
  vf::EncOpts o;
  std::unique_ptr<Mesh> mesh;
  std::unique_ptr<PointCloud> pcu;
  const PointCloud *pc = nullptr;
};

static void MakeCase(Rng &r, Case *c, bool force_mesh = false, bool force_pc = false) {
  vf::GenParams gp;
  gp.point_cloud = force_pc ? true : force_mesh ? false : r.below(4) == 0;
  int s = r.below(100);
  gp.size_class = s < 3 ? 0 : s < 10 ? 1 : s < 55 ? 2 : s < 98 ? 3 : 4;
  gp.float_pos = r.below(4) != 0;
  gp.narrow_int32 = true;
  c->g = vf::GenGeo(r, gp);
  c->o = vf::GenOpts(r, c->g);
  // Explicit quantization (caller-supplied origin / range) on some quantized float attributes - also with an origin
  // of fewer dimensions than the attribute has components (the API takes the dimension count from the caller; the
  // components it does not cover use origin 0, so their data is shifted to start at 0).
  c->o.explicit_q.assign(c->g.atts.size(), vf::EncOpts::Explicit());
  for (size_t a = 0; a < c->g.atts.size(); ++a) {
    vf::Attr &at = c->g.atts[a];
    // ExpertEncoder only: the basic Encoder keys options by attribute *type*, and a box computed for one attribute would
    // be applied to every other attribute of that type, whose values lie outside it (a caller error with its own,
    // unlisted, consequences in the encoder).
    if (!c->o.expert || at.dt != DT_FLOAT32 || c->o.qbits[a] <= 0 || at.nvals == 0 || r.below(3) != 0) continue;
    std::vector<double> mn(at.nc, 1e300), mx(at.nc, -1e300);
    bool finite = true;
    for (size_t i = 0; i < at.nvals; ++i) for (int k = 0; k < at.nc; ++k) { float v; memcpy(&v, at.data.data() + (i * at.nc + k) * 4, 4); if (!std::isfinite(v) || std::fabs(v) > 1e15f) finite = false; mn[k] = std::min<double>(mn[k], v); mx[k] = std::max<double>(mx[k], v); }
    if (!finite) continue;
    const int dims = (at.nc > 1 && r.below(2)) ? 1 + static_cast<int>(r.below(at.nc - 1)) : at.nc;
    for (int k = dims; k < at.nc; ++k) {  // uncovered components: shift the data so that it starts at 0
      for (size_t i = 0; i < at.nvals; ++i) { float v; memcpy(&v, at.data.data() + (i * at.nc + k) * 4, 4); v = static_cast<float>(v - mn[k]); memcpy(at.data.data() + (i * at.nc + k) * 4, &v, 4); }
      mx[k] -= mn[k]; mn[k] = 0;
    }
    vf::EncOpts::Explicit ex;
    ex.bits = std::min(c->o.qbits[a], 18);
    double need = 0;
    for (int k = 0; k < at.nc; ++k) { const double org = k < dims ? mn[k] - 0.01 * (mx[k] - mn[k] + 1e-3) : 0.0; if (k < dims) ex.origin.push_back(static_cast<float>(org)); need = std::max(need, mx[k] - (k < dims ? static_cast<double>(ex.origin[k]) : 0.0)); }
    ex.range = static_cast<float>(need * 1.01 + 1e-6);
    c->o.explicit_q[a] = ex;
  }
  vf::AvoidHugeEntropyTables(c->g, &c->o);
  if (c->g.is_mesh) { c->mesh = vf::ToMesh(c->g); c->pc = c->mesh.get(); } else { c->pcu = vf::ToPointCloud(c->g); c->pc = c->pcu.get(); }
}

static std::string DigestStr(const std::pair<uint64_t, uint64_t> &d) { char b[40]; snprintf(b, sizeof b, "%016llx%016llx", (unsigned long long)d.first, (unsigned long long)d.second); return b; }

// Decodes and returns "status|digest|remaining".
static std::string DecodeSig(const char *data, size_t n, Decoder *reuse = nullptr, DecoderBuffer *reuse_buffer = nullptr) {
  DecoderBuffer local_db;
  DecoderBuffer &db = reuse_buffer ? *reuse_buffer : local_db;
  db.Init(data, n);
  Decoder local;
  Decoder *dec = reuse ? reuse : &local;
  auto type = Decoder::GetEncodedGeometryType(&db);
  if (!type.ok()) return "err:" + type.status().error_msg_string();
  std::pair<uint64_t, uint64_t> dg;
  if (type.value() == TRIANGULAR_MESH) {
    auto m = dec->DecodeMeshFromBuffer(&db);
    if (!m.ok()) return "err:" + m.status().error_msg_string();
    dg = vf::OrderedDigest(*m.value(), m.value().get());
  } else {
    auto p = dec->DecodePointCloudFromBuffer(&db);
    if (!p.ok()) return "err:" + p.status().error_msg_string();
    dg = vf::OrderedDigest(*p.value(), nullptr);
  }
  return "ok:" + DigestStr(dg) + ":" + std::to_string(db.remaining_size());
}

static std::vector<std::string> g_legacy;  // /repo/testdata/*.drc: streams of older bitstream versions
static void LoadLegacy() {
  const std::string dir = vf::RepoRoot() + "/testdata";
  std::vector<std::string> names;
  if (DIR *d = opendir(dir.c_str())) { while (dirent *e = readdir(d)) { std::string n = e->d_name; if (n.size() > 4 && n.substr(n.size() - 4) == ".drc") names.push_back(n); } closedir(d); }
  std::sort(names.begin(), names.end());
  for (auto &n : names) { std::ifstream f(dir + "/" + n, std::ios::binary); std::string b((std::istreambuf_iterator<char>(f)), std::istreambuf_iterator<char>()); if (b.size() > 32 && b.size() < 200000) g_legacy.push_back(b); }
}

int main(int argc, char **argv) {
  LoadLegacy();
  // Child mode: print encode hash + decode signature of one case, for the cross-process comparison.
  for (int i = 1; i < argc; ++i) if (std::string(argv[i]) == "--emit") {
    vf::Args a = vf::ParseArgs(argc, argv);
    Rng r(a.seed, vf::HashStr("C06"), static_cast<uint64_t>(a.only));
    Case c;
    MakeCase(r, &c);
    vf::EncResult er = vf::Encode(c.g, *c.pc, c.mesh.get(), c.o);
    if (!er.status.ok()) { printf("refused\n"); return 0; }
    printf("%016llx %s\n", (unsigned long long)vf::HashBytes(er.bytes.data(), er.bytes.size()), DecodeSig(er.bytes.data(), er.bytes.size()).c_str());
    return 0;
  }
  static std::string self = argv[0];
  return vf::RunHarness(argc, argv, "C06", [](int64_t k, Rng &r, Reporter &rep) {
    Case c;
    MakeCase(r, &c);
    const std::string desc = c.g.family + (c.g.is_mesh ? " mesh" : " pc") + " np=" + std::to_string(c.g.npoints) + " nf=" + std::to_string(c.g.faces.size()) + " | " + c.o.Describe();
    rep.note(desc);
    vf::EncResult ref = vf::Encode(c.g, *c.pc, c.mesh.get(), c.o);
    if (!ref.status.ok()) {
      // Determinism of refusals: the same refusal under poison.
      ModeGuard mg(2);
      vf::EncResult again = vf::Encode(c.g, *c.pc, c.mesh.get(), c.o);
      if (again.status.ok()) rep.violation("encode-refusal-not-deterministic", desc);
      else { rep.count("encoder_refused"); rep.held(0, false); }
      return;
    }
    rep.stage(0, "stream.drc", ref.bytes.data(), ref.bytes.size());
    const int method = static_cast<uint8_t>(ref.bytes[8]);
    const std::string cfg = c.g.is_mesh ? (method == MESH_EDGEBREAKER_ENCODING ? "edgebreaker" : "mesh-sequential") : (method == POINT_CLOUD_KD_TREE_ENCODING ? "kd-tree" : "pc-sequential");
    std::vector<Reporter::Artifact> arts = {{"stream.drc", ref.bytes}, {"case.txt", desc}};
    auto differs = [&](const std::string &what, const std::string &bytes) {
      if (bytes == ref.bytes) { rep.count("encode_equal/" + what); return false; }
      size_t i = 0;
      while (i < bytes.size() && i < ref.bytes.size() && bytes[i] == ref.bytes[i]) ++i;
      rep.violation("encode-differs/" + what + "/" + cfg, desc + " first_diff_at=" + std::to_string(i) + " sizes=" + std::to_string(ref.bytes.size()) + "/" + std::to_string(bytes.size()), arts);
      return true;
    };
    // (1) heap contents / layout
    for (int m = 1; m <= 4; ++m) {
      ModeGuard mg(m, static_cast<int>(r.below(256)));
      vf::EncResult e = vf::Encode(c.g, *c.pc, c.mesh.get(), c.o);
      if (!e.status.ok()) { rep.violation("encode-status-differs/heap-mode" + std::to_string(m) + "/" + cfg, desc, arts); return; }
      if (differs("heap-mode" + std::to_string(m), e.bytes)) return;
    }
    // (2) another thread
    {
      vf::EncResult e;
      std::thread t([&] { ModeGuard mg(3, 0x5A); e = vf::Encode(c.g, *c.pc, c.mesh.get(), c.o); });
      t.join();
      if (!e.status.ok() || differs("other-thread", e.bytes)) { if (!e.status.ok()) rep.violation("encode-status-differs/other-thread/" + cfg, desc, arts); return; }
    }
    // (3) reuse histories
    {
      Case other;
      MakeCase(r, &other, c.g.is_mesh, !c.g.is_mesh);
      if (!c.o.expert) {
        // Encoder reused after another geometry (with Reset), and buffer that already holds bytes.
        Encoder e;
        other.o.explicit_q.clear();  // the other case's per-attribute boxes (ExpertEncoder cases) must not be applied by type
        vf::ConfigureBasic(&e, other.g, other.o);
        EncoderBuffer junk;
        if (other.g.is_mesh) e.EncodeMeshToBuffer(*other.mesh, &junk); else e.EncodePointCloudToBuffer(*other.pc, &junk);
        e.Reset();
        vf::ConfigureBasic(&e, c.g, c.o);
        const size_t before = junk.size();
        Status st = c.g.is_mesh ? e.EncodeMeshToBuffer(*c.mesh, &junk) : e.EncodePointCloudToBuffer(*c.pc, &junk);
        if (!st.ok()) { rep.violation("encode-status-differs/reused-encoder-after-reset/" + cfg, desc, arts); return; }
        if (differs("reused-encoder-after-reset+appended-buffer", std::string(junk.data() + before, junk.size() - before))) return;
        // the same EncoderBuffer object again after Clear()
        junk.Clear();
        st = c.g.is_mesh ? e.EncodeMeshToBuffer(*c.mesh, &junk) : e.EncodePointCloudToBuffer(*c.pc, &junk);
        if (!st.ok() || differs("reused-encoder-buffer-after-clear", std::string(junk.data(), junk.size()))) return;
        // same encoder, same options, encode twice
        EncoderBuffer b2;
        st = c.g.is_mesh ? e.EncodeMeshToBuffer(*c.mesh, &b2) : e.EncodePointCloudToBuffer(*c.pc, &b2);
        if (!st.ok() || differs("same-encoder-second-call", std::string(b2.data(), b2.size()))) return;
      } else {
        std::unique_ptr<ExpertEncoder> e(c.g.is_mesh ? new ExpertEncoder(*c.mesh) : new ExpertEncoder(*c.pc));
        vf::ConfigureExpert(e.get(), c.g, c.o);
        EncoderBuffer b1, b2;
        Status s1 = e->EncodeToBuffer(&b1);
        Status s2 = e->EncodeToBuffer(&b2);
        if (!s1.ok() || !s2.ok()) { rep.violation("encode-status-differs/reused-expert-encoder/" + cfg, desc, arts); return; }
        if (differs("expert-encoder-first-call", std::string(b1.data(), b1.size()))) return;
        if (differs("expert-encoder-second-call", std::string(b2.data(), b2.size()))) return;
        // after a failed/other configuration round trip: Reset + reconfigure
        e->Reset();
        vf::ConfigureExpert(e.get(), c.g, c.o);
        EncoderBuffer b3;
        if (!e->EncodeToBuffer(&b3).ok() || differs("expert-encoder-after-reset", std::string(b3.data(), b3.size()))) return;
      }
    }
    // (3b) option history: the same encoder object first encodes with other speed options (biased to cross the
    // speed-10 method switch), then the speeds are set to the case's values: the final option state equals the
    // reference's, so the output must too.
    if (c.o.enc_speed >= 0) {
      vf::EncOpts hist = c.o;
      const int other[] = {10, 10, 2, 5, 9, 3};  // never below 2: see AvoidHugeEntropyTables
      hist.enc_speed = other[r.below(6)];
      hist.dec_speed = r.below(2) ? hist.enc_speed : other[r.below(6)];
      std::string got;
      bool ok = true;
      if (c.o.expert) {
        std::unique_ptr<ExpertEncoder> e(c.g.is_mesh ? new ExpertEncoder(*c.mesh) : new ExpertEncoder(*c.pc));
        vf::ConfigureExpert(e.get(), c.g, hist);
        EncoderBuffer b1, b2;
        e->EncodeToBuffer(&b1);  // may succeed or be refused; only the second call is compared
        e->SetSpeedOptions(c.o.enc_speed, c.o.dec_speed);
        ok = e->EncodeToBuffer(&b2).ok();
        got.assign(b2.data(), b2.size());
      } else {
        Encoder e;
        vf::ConfigureBasic(&e, c.g, hist);
        EncoderBuffer b1, b2;
        if (c.g.is_mesh) e.EncodeMeshToBuffer(*c.mesh, &b1); else e.EncodePointCloudToBuffer(*c.pc, &b1);
        e.SetSpeedOptions(c.o.enc_speed, c.o.dec_speed);
        ok = (c.g.is_mesh ? e.EncodeMeshToBuffer(*c.mesh, &b2) : e.EncodePointCloudToBuffer(*c.pc, &b2)).ok();
        got.assign(b2.data(), b2.size());
      }
      if (!ok) { rep.violation("encode-status-differs/after-speed-history/" + cfg, desc + " history speed " + std::to_string(hist.enc_speed) + "/" + std::to_string(hist.dec_speed), arts); return; }
      if (differs(std::string("after-speed-history/") + (c.o.expert ? "expert" : "basic"), got)) return;
    }
    // (3c) the low-level float point-cloud encoder (FloatPointsTreeEncoder) is reusable as well: after a cloud of
    // larger or smaller extent on the same object, a cloud encodes to the bytes a fresh object produces.
    if (r.below(8) == 0) {
      const int level = static_cast<int>(r.below(7));
      const uint32_t qb = 4 + static_cast<uint32_t>(r.below(16));
      auto cloud = [&](size_t n, float extent) { std::vector<Point3f> v; for (size_t i = 0; i < n; ++i) v.push_back(Point3f(static_cast<float>(r.uniform(-1, 1)) * extent, static_cast<float>(r.uniform(-1, 1)) * extent, static_cast<float>(r.uniform(-1, 1)) * extent)); return v; };
      const std::vector<Point3f> target = cloud(1 + r.below(200), 1.f);
      const std::vector<Point3f> before = cloud(1 + r.below(200), r.below(2) ? 1000.f : 0.001f);
      FloatPointsTreeEncoder fresh(KDTREE, qb, level), used(KDTREE, qb, level);
      const bool ok_fresh = fresh.EncodePointCloud(target.begin(), target.end());
      used.EncodePointCloud(before.begin(), before.end());
      const bool ok_used = used.EncodePointCloud(target.begin(), target.end());
      if (ok_fresh != ok_used || (ok_fresh && (fresh.buffer()->size() != used.buffer()->size() || memcmp(fresh.buffer()->data(), used.buffer()->data(), fresh.buffer()->size()) != 0))) {
        rep.violation("encode-differs/float-points-tree-encoder-reused", desc + " level=" + std::to_string(level) + " qbits=" + std::to_string(qb) + " sizes=" + std::to_string(fresh.buffer()->size()) + "/" + std::to_string(used.buffer()->size()), arts);
        return;
      }
      rep.count("encode_equal/float-points-tree-encoder-reused");
    }
    // (4) another process, ASLR on and off
    if (k % 16 == 0) {
      for (int aslr = 0; aslr < 2; ++aslr) {
        int fds[2];
        if (pipe(fds) != 0) break;
        pid_t pid = fork();
        if (pid == 0) {
          dup2(fds[1], 1); close(fds[0]);
          if (!aslr) personality(ADDR_NO_RANDOMIZE);
          std::string seed = std::to_string(rep.args().seed), only = std::to_string(k);
          execl(self.c_str(), self.c_str(), "--emit", "1", "--seed", seed.c_str(), "--only", only.c_str(), (char *)nullptr);
          _exit(127);
        }
        close(fds[1]);
        char buf[256] = {0};
        ssize_t n = read(fds[0], buf, sizeof buf - 1);
        close(fds[0]);
        int stt = 0;
        waitpid(pid, &stt, 0);
        char want[256];
        snprintf(want, sizeof want, "%016llx %s\n", (unsigned long long)vf::HashBytes(ref.bytes.data(), ref.bytes.size()), DecodeSig(ref.bytes.data(), ref.bytes.size()).c_str());
        if (n <= 0 || std::string(buf) != want) { rep.violation(std::string("other-process-differs/") + (aslr ? "aslr-on" : "aslr-off") + "/" + cfg, desc + " got=" + std::string(buf) + " want=" + want, arts); return; }
        rep.count(std::string("process_equal/") + (aslr ? "aslr-on" : "aslr-off"));
      }
    }
    // ---- decoding ---------------------------------------------------------------------
    const std::string dref = DecodeSig(ref.bytes.data(), ref.bytes.size());
    if (dref.rfind("ok:", 0) != 0) {
      // That the own stream must decode is C01's business; that the verdict must not depend on what follows the
      // stream is this property's: the same bytes followed by a tail must be refused as well.
      for (size_t tail_len : {static_cast<size_t>(1 + r.below(64)), static_cast<size_t>(4096), static_cast<size_t>(200000)}) {
        std::string with_tail = ref.bytes;
        for (size_t i = 0; i < tail_len; ++i) with_tail += static_cast<char>(r.below(256));
        const std::string dt = DecodeSig(with_tail.data(), with_tail.size());
        if (dt.rfind("ok:", 0) == 0) { rep.violation("decode-affected-by-trailing-bytes/refused-without-tail/" + cfg, desc + " exact=" + dref + " with " + std::to_string(tail_len) + " trailing bytes=" + dt, arts); return; }
      }
      rep.count("decode_refused_own_stream");
      rep.held(0, false);
      return;
    }
    if (dref.substr(dref.rfind(':') + 1) != "0") { rep.violation("decode-does-not-consume-exactly-the-stream/" + cfg, desc + " sig=" + dref, arts); return; }
    for (int m = 1; m <= 4; ++m) {
      ModeGuard mg(m, static_cast<int>(r.below(256)));
      std::string d = DecodeSig(ref.bytes.data(), ref.bytes.size());
      if (d != dref) { rep.violation("decode-differs/heap-mode" + std::to_string(m) + "/" + cfg, desc + " " + d + " vs " + dref, arts); return; }
      rep.count("decode_equal/heap-mode" + std::to_string(m));
    }
    {
      // reused Decoder: after another stream, after a failed decode
      Decoder dec;
      Case other;
      MakeCase(r, &other);
      vf::EncResult oe = vf::Encode(other.g, *other.pc, other.mesh.get(), other.o);
      if (oe.status.ok()) DecodeSig(oe.bytes.data(), oe.bytes.size(), &dec);
      std::string garbage = ref.bytes.substr(0, ref.bytes.size() / 2);
      DecodeSig(garbage.data(), garbage.size(), &dec);
      std::string d = DecodeSig(ref.bytes.data(), ref.bytes.size(), &dec);
      if (d != dref) { rep.violation("decode-differs/reused-decoder/" + cfg, desc + " " + d + " vs " + dref, arts); return; }
      rep.count("decode_equal/reused-decoder");
      // reused DecoderBuffer object (Init() again on the same object): after a stream of the other geometry type,
      // after a legacy-version stream, after a truncated stream - with a fresh and with a reused Decoder.
      {
        DecoderBuffer db;
        Decoder dec2;
        Case other2;
        MakeCase(r, &other2, c.g.is_mesh, !c.g.is_mesh);  // the other geometry type: a different current bitstream version
        vf::EncResult oe2 = vf::Encode(other2.g, *other2.pc, other2.mesh.get(), other2.o);
        std::string hist;
        const int nh = 1 + static_cast<int>(r.below(3));
        for (int h = 0; h < nh; ++h) {
          const int kind = static_cast<int>(r.below(4));
          Decoder *hd = r.below(2) ? &dec2 : nullptr;
          if (kind == 0 && oe2.status.ok()) { DecodeSig(oe2.bytes.data(), oe2.bytes.size(), hd, &db); hist += "other-type,"; }
          else if (kind == 1 && !g_legacy.empty()) { const std::string &l = g_legacy[r.below(g_legacy.size())]; DecodeSig(l.data(), l.size(), hd, &db); hist += "legacy,"; }
          else if (kind == 2 && !g_legacy.empty()) { const std::string &l = g_legacy[r.below(g_legacy.size())]; DecodeSig(l.data(), 11 + r.below(l.size() - 11), hd, &db); hist += "legacy-truncated,"; }
          else { DecodeSig(garbage.data(), garbage.size(), hd, &db); hist += "truncated,"; }
        }
        const bool reuse_dec = r.below(2);
        std::string d2 = DecodeSig(ref.bytes.data(), ref.bytes.size(), reuse_dec ? &dec2 : nullptr, &db);
        if (d2 != dref) { rep.violation("decode-differs/reused-decoder-buffer/" + cfg, desc + " history=" + hist + (reuse_dec ? " reused-decoder " : " fresh-decoder ") + d2 + " vs " + dref, arts); return; }
        rep.count("decode_equal/reused-decoder-buffer");
        // and the reverse: a legacy stream decodes the same through a buffer that has just decoded the current stream
        if (!g_legacy.empty()) {
          const size_t li = r.below(g_legacy.size());
          const std::string &l = g_legacy[li];
          const std::string lref = DecodeSig(l.data(), l.size());
          const std::string lgot = DecodeSig(l.data(), l.size(), reuse_dec ? &dec2 : nullptr, &db);
          if (lgot != lref) { rep.violation("decode-differs/reused-decoder-buffer/legacy-after-current", desc + " legacy#" + std::to_string(li) + " " + lgot + " vs " + lref, arts); return; }
          rep.count("decode_equal/legacy-after-current");
        }
      }
      // trailing bytes: 1..64 random bytes, or a second valid stream
      std::string tail;
      if (r.below(3) == 0 && oe.status.ok()) tail = oe.bytes; else { size_t n = 1 + r.below(64); for (size_t i = 0; i < n; ++i) tail += static_cast<char>(r.below(256)); }
      if (r.below(4) == 0) tail = ref.bytes;
      std::string with_tail = ref.bytes + tail;
      std::string dt = DecodeSig(with_tail.data(), with_tail.size());
      std::string want = dref.substr(0, dref.rfind(':') + 1) + std::to_string(tail.size());
      if (dt != want) { rep.violation("decode-affected-by-trailing-bytes/" + cfg, desc + " got=" + dt + " want=" + want + " tail=" + std::to_string(tail.size()), arts); return; }
      rep.count("decode_equal/trailing-bytes");
    }
    {
      std::string d;
      std::thread t([&] { ModeGuard mg(2); d = DecodeSig(ref.bytes.data(), ref.bytes.size()); });
      t.join();
      if (d != dref) { rep.violation("decode-differs/other-thread/" + cfg, desc, arts); return; }
    }
    rep.count("config/" + cfg);
    rep.held(vf::HashBytes(ref.bytes.data(), ref.bytes.size()), true);
    if (r.below(300) == 0) rep.sample("{\"case\":\"" + vf::JsonEscape(desc) + "\",\"bytes\":" + std::to_string(ref.bytes.size()) + ",\"decode\":\"" + dref + "\"}");
  });
}
