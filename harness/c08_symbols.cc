// C08: symbol entropy coding is lossless and self-delimiting.
// Oracle: DecodeSymbols(EncodeSymbols(x)) == x, sentinel found right after the block.
#include <algorithm>
#include <cstdlib>

#include "common/runner.h"
#include "draco/compression/config/compression_shared.h"
#include "draco/compression/entropy/symbol_decoding.h"
#include "draco/compression/entropy/symbol_encoding.h"
#include "draco/core/decoder_buffer.h"
#include "draco/core/encoder_buffer.h"
#include "draco/core/options.h"

using namespace draco;
using vf::Reporter;
using vf::Rng;

static const char *kDist[] = {"constant", "two_symbol", "uniform_small", "uniform_wide", "zipf", "outlier", "many_distinct", "equal_counts", "geometric", "runs", "boundary_prob"};

// Frequency table engineered so that one symbol's quantized rANS probability lands on (or next to) a boundary of
// the table format: 2^6 and 2^14 (1/2/3-byte entries), half of the precision, precision - (distinct - 1).
// The raw scheme's precision follows from the number of distinct symbols and the compression level
// (mirrored here only to aim the generator; a miss just makes an ordinary skewed input). With n = 2^precision
// values the quantized probabilities equal the counts.
static void GenBoundary(Rng &r, std::vector<uint32_t> *out, int *hint_level, int *hint_raw) {
  const int level = r.below(3) == 0 ? -1 : static_cast<int>(r.below(11));
  const int leff = level < 0 ? 7 : level;
  const int adj = leff < 4 ? -2 : leff < 6 ? -1 : leff > 9 ? 2 : leff > 7 ? 1 : 0;
  int prec = 0, ubits = 0;
  for (int tries = 0; tries < 50; ++tries) {
    ubits = static_cast<int>(r.range(2, 13));                       // bit length of the number of distinct symbols
    const int b = std::min(std::max(1, ubits + adj), 18);
    prec = std::min(std::max(12, (3 * b) / 2), 20);
    if (prec <= 17 || (prec == 18 && r.below(4) == 0)) break;            // n = 2^prec values: keep cases small
  }
  if (prec > 18) { prec = 12; ubits = 4; }
  const uint32_t n = 1u << prec;
  const uint32_t lo = ubits <= 1 ? 2 : (1u << (ubits - 1)), hi = (1u << ubits) - 1;
  uint32_t distinct = lo + r.below(hi - lo + 1);                      // MostSignificantBit(distinct) + 1 == ubits
  if (distinct < 2) distinct = 2;
  const uint32_t others = distinct - 1;
  const uint32_t targets[] = {1u << 14, (1u << 14) - 1, (1u << 14) + 1, 1u << 6, (1u << 6) - 1, (1u << 6) + 1, n / 2, n / 2 - 1, n / 2 + 1, n / 4, n - others, 1u << 13, 1u << 15};
  uint32_t dom = targets[r.below(13)];
  if (r.below(8) == 0) dom = (dom >> 1) + r.below(3);               // in case the actual precision is one bit off
  if (dom < 1) dom = 1;
  if (dom + others > n) dom = n - others;
  std::vector<uint32_t> &v = *out;
  v.clear();
  v.reserve(n);
  const uint32_t stride = 1 + r.below(3), dom_sym = r.below(distinct);
  const uint32_t rem = n - dom, base = rem / others, extra = rem % others;
  // optionally a second boundary symbol
  uint32_t second = others > 1 && r.below(3) == 0 ? targets[r.below(6)] : 0;
  if (second && (second + (others - 1) > rem)) second = 0;
  uint32_t idx = 0;
  for (uint32_t s = 0; s < distinct; ++s) {
    uint32_t c;
    if (s == dom_sym) c = dom;
    else if (second) { if (idx == 0) c = second; else { const uint32_t rem2 = rem - second, o2 = others - 1; c = rem2 / o2 + ((idx - 1) < rem2 % o2 ? 1 : 0); } ++idx; }
    else { c = base + (idx < extra ? 1 : 0); ++idx; }
    for (uint32_t j = 0; j < c; ++j) v.push_back(s * stride);
  }
  for (size_t i = v.size() - 1; i > 0; --i) std::swap(v[i], v[r.below(i + 1)]);
  *hint_level = level;
  *hint_raw = r.below(4) != 0;
}

static void Gen(Rng &r, bool thorough, std::vector<uint32_t> *out, int *dist, uint64_t *maxv, int *hint_level, int *hint_raw) {
  *hint_level = -2; *hint_raw = -1;
  int d = r.below(11);
  if (d == 6 && r.below(thorough ? 4 : 20) != 0) d = 2;  // many_distinct is expensive: keep rare
  *dist = d;
  size_t n;
  switch (r.below(6)) {
    case 0: n = 1 + r.below(8); break;
    case 1: n = 1 + r.below(64); break;
    case 2: n = 1 + r.below(1000); break;
    case 3: n = 1 + r.below(20000); break;
    default: n = 1 + r.below(thorough ? 100000 : 4000); break;
  }
  std::vector<uint32_t> &v = *out;
  v.clear();
  switch (d) {
    case 0: { uint32_t c = r.below(3) == 0 ? r.u32() >> r.below(32) : r.below(300); v.assign(n, c); break; }
    case 1: { double p = std::ldexp(1.0, -(int)r.range(1, 14)); uint32_t a = r.below(1000), b = r.below(2) ? a + 1 : r.u32() >> (12 + r.below(20));
              for (size_t i = 0; i < n; ++i) v.push_back(r.chance(p) ? b : a); break; }
    case 2: { int b = r.range(1, 18); for (size_t i = 0; i < n; ++i) v.push_back(r.u32() & ((1u << b) - 1)); break; }
    case 3: { int b = r.range(19, 32); uint32_t m = b == 32 ? 0xffffffffu : ((1u << b) - 1); for (size_t i = 0; i < n; ++i) v.push_back(r.u32() & m); break; }
    case 4: { double s = r.uniform(0.7, 2.5); uint32_t k = 2 + r.below(5000);
              for (size_t i = 0; i < n; ++i) { double u = r.unit(); uint32_t x = static_cast<uint32_t>(std::pow(u, -1.0 / s)) - 1; v.push_back(x % k); } break; }
    case 5: { uint32_t base = r.below(200); for (size_t i = 0; i < n; ++i) v.push_back(base ? r.below(base) : 0);
              const uint32_t outl[] = {1u << 22, (1u << 22) + 1, (1u << 18) - 1, 1u << 18, 0x7ffffffeu, 0x7fffffffu, 0x80000000u, 0xfffffffeu, 0xffffffffu, 1u << 30};
              int k = 1 + r.below(3); for (int i = 0; i < k; ++i) v[r.below(n)] = outl[r.below(10)]; break; }
    case 6: { const uint32_t cnt[] = {(1u << 18) - 1, 1u << 18, (1u << 18) + 1, 1u << 17, (1u << 16) + 3};
              uint32_t k = cnt[r.below(5)]; uint32_t stride = 1 + r.below(3); n = k + r.below(1000);
              for (size_t i = 0; i < n; ++i) v.push_back((i < k ? static_cast<uint32_t>(i) : static_cast<uint32_t>(r.below(k))) * stride);
              for (size_t i = n - 1; i > 0; --i) std::swap(v[i], v[r.below(i + 1)]); break; }
    case 7: { uint32_t k = 2 + r.below(300); uint32_t c = 1 + r.below(40); n = static_cast<size_t>(k) * c;
              for (uint32_t s = 0; s < k; ++s) for (uint32_t j = 0; j < c; ++j) v.push_back(s);
              if (r.below(2)) { v.push_back(r.below(k)); }
              for (size_t i = v.size() - 1; i > 0; --i) std::swap(v[i], v[r.below(i + 1)]); break; }
    case 8: { double p = r.uniform(0.02, 0.9); for (size_t i = 0; i < n; ++i) { uint32_t x = 0; while (!r.chance(p) && x < 100000) ++x; v.push_back(x); } break; }
    case 10: GenBoundary(r, out, hint_level, hint_raw); break;
    default: { uint32_t cur = r.below(50); for (size_t i = 0; i < n; ++i) { if (r.below(40) == 0) cur = r.below(1u << r.range(1, 20)); v.push_back(cur); } break; }
  }
  uint64_t m = 0;
  for (uint32_t x : v) m = std::max<uint64_t>(m, x);
  *maxv = m;
}

int main(int argc, char **argv) {
  return vf::RunHarness(argc, argv, "C08", [](int64_t k, Rng &r, Reporter &rep) {
    const bool thorough = rep.args().tier == "thorough";
    std::vector<uint32_t> sym;
    int dist;
    uint64_t maxv;
    int hint_level, hint_raw;
    Gen(r, thorough, &sym, &dist, &maxv, &hint_level, &hint_raw);
    int comps = r.below(3) == 0 ? 1 : static_cast<int>(r.range(1, 6));
    if (hint_level != -2) comps = r.below(2) ? 1 : static_cast<int>(1u << r.below(3));  // n is a power of two: keep whole groups
    if (r.below(30) == 0) comps = 0;  // "<= 0 means 1" clause of the API
    int ceff = comps <= 0 ? 1 : comps;
    size_t n = sym.size() - sym.size() % ceff;  // API contract: whole groups
    if (n == 0) { n = ceff; sym.resize(n, sym.empty() ? 0 : sym[0]); }
    sym.resize(n);
    Options opt;
    bool use_opt = r.below(4) != 0;
    int level = -1, method = -1;
    if (hint_level != -2) {
      use_opt = true;
      level = hint_level;
      if (level >= 0) SetSymbolEncodingCompressionLevel(&opt, level);
      if (hint_raw) { method = SYMBOL_CODING_RAW; SetSymbolEncodingMethod(&opt, SYMBOL_CODING_RAW); }
    } else if (use_opt) {
      if (r.below(3) != 0) { level = r.below(11); SetSymbolEncodingCompressionLevel(&opt, level); }
      int m = r.below(4);
      // Forcing the raw scheme is the caller's explicit choice; its table is O(max value),
      // so it is only forced for values that fit its documented 18(+)-bit domain.
      if (m == 0) { method = SYMBOL_CODING_TAGGED; }
      else if (m == 1 && maxv < (1u << 23)) { method = SYMBOL_CODING_RAW; }  // tables of up to 2^23 entries (~100 MB transient)
      if (method >= 0) SetSymbolEncodingMethod(&opt, static_cast<SymbolCodingMethod>(method));
    }
    char desc[256];
    snprintf(desc, sizeof desc, "dist=%s n=%zu comps=%d level=%d method=%d max=%llu", kDist[dist], n, comps, level, method, (unsigned long long)maxv);
    rep.note(desc);
    rep.stage(0, "symbols.u32", sym.data(), std::min<size_t>(n * 4, 1 << 20));
    EncoderBuffer eb;
    const uint8_t prefix = 0x3C;
    eb.Encode(prefix);
    bool ok = EncodeSymbols(sym.data(), static_cast<int>(n), comps, use_opt ? &opt : nullptr, &eb);
    std::string cls = std::string(kDist[dist]) + (maxv >= (1ull << 31) ? "/max>=2^31" : maxv >= (1ull << 18) ? "/max>=2^18" : "/max<2^18") +
                      (method == SYMBOL_CODING_RAW ? "/forced-raw" : method == SYMBOL_CODING_TAGGED ? "/forced-tagged" : "/auto");
    if (!ok) {
      rep.count("encoder_refused/" + cls);
      // A refusal must be justified: either a value needs 32 bits (tagged scheme limit) or the
      // forced raw scheme has more than 2^18 distinct symbols.
      bool justified = maxv >= (1ull << 31);
      if (method == SYMBOL_CODING_RAW) {
        std::vector<uint32_t> u(sym);
        std::sort(u.begin(), u.end());
        size_t distinct = std::unique(u.begin(), u.end()) - u.begin();
        justified |= distinct >= (1u << 18);
      }
      if (!justified) rep.violation("encoder-refused-representable-input/" + cls, desc);
      else rep.held(vf::HashBytes(sym.data(), n * 4, comps * 131 + level * 17 + method), false);
      return;
    }
    const uint32_t sentinel = 0xC08C08C0u;
    eb.Encode(sentinel);
    size_t sz = eb.size();
    char *buf = static_cast<char *>(malloc(sz));
    memcpy(buf, eb.data(), sz);
    rep.stage(1, "block.bin", buf, sz);
    DecoderBuffer db;
    db.Init(buf, sz, DRACO_BITSTREAM_VERSION(2, 2));
    uint8_t p0 = 0;
    db.Decode(&p0);
    std::vector<uint32_t> out(n, 0xdeadbeefu);
    bool dok = DecodeSymbols(static_cast<uint32_t>(n), ceff, &db, out.data());
    std::vector<Reporter::Artifact> arts = {{"symbols.u32", std::string(reinterpret_cast<const char *>(sym.data()), n * 4)}, {"block.bin", std::string(buf, sz)}};
    if (!dok) {
      rep.violation("decode-failed/" + cls, desc, arts);
    } else if (out != sym) {
      size_t i = 0;
      while (i < n && out[i] == sym[i]) ++i;
      rep.violation("mismatch/" + cls, std::string(desc) + " first_diff=" + std::to_string(i) + " want=" + std::to_string(sym[i]) + " got=" + std::to_string(out[i]), arts);
    } else {
      uint32_t s = 0;
      if (!db.Decode(&s) || s != sentinel || db.remaining_size() != 0) {
        rep.violation("not-self-delimiting/" + cls, std::string(desc) + " remaining=" + std::to_string(db.remaining_size()), arts);
      } else {
        uint8_t scheme = static_cast<uint8_t>(buf[1]);
        rep.count(std::string("scheme/") + (scheme == SYMBOL_CODING_TAGGED ? "tagged" : "raw"));
        if (scheme == SYMBOL_CODING_RAW) rep.count("raw_bit_length/" + std::to_string(static_cast<int>(static_cast<uint8_t>(buf[2]))));
        if (scheme == SYMBOL_CODING_RAW && dist == 10) {
          // Did the engineered table meet the coder's actual precision (counts == quantized probabilities)?
          const int b = static_cast<uint8_t>(buf[2]);
          const int prec = std::min(std::max(12, (3 * b) / 2), 20);
          rep.count((1ull << prec) == n ? "boundary_precision_hit/" + std::to_string(prec) : std::string("boundary_precision_miss"));
        }
        rep.count("class/" + cls);
        rep.count("level/" + std::to_string(level));
        rep.count("components/" + std::to_string(comps));
        rep.count("symbols", n);
        rep.held(vf::HashBytes(buf, sz, comps), n >= 1);
        if (r.below(300) == 0) rep.sample(std::string("{\"case\":\"") + desc + "\",\"bytes\":" + std::to_string(sz) + "}");
      }
    }
    free(buf);
  });
}
