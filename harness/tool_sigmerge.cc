// Counts distinct uint64 signatures over several raw files.
#include <algorithm>
#include <cstdint>
#include <cstdio>
#include <vector>
int main(int argc, char **argv) {
  std::vector<uint64_t> v;
  for (int i = 1; i < argc; ++i) {
    FILE *f = fopen(argv[i], "rb");
    if (!f) continue;
    uint64_t buf[4096];
    size_t n;
    while ((n = fread(buf, 8, 4096, f)) > 0) v.insert(v.end(), buf, buf + n);
    fclose(f);
  }
  std::sort(v.begin(), v.end());
  size_t d = std::unique(v.begin(), v.end()) - v.begin();
  printf("%zu %zu\n", d, v.size());
  return 0;
}
