// C20: keyframe animations round-trip with frame order preserved.
#include <algorithm>
#include <cmath>

#include "common/canon.h"
#include "common/runner.h"
#include "draco/animation/keyframe_animation.h"
#include "draco/animation/keyframe_animation_decoder.h"
#include "draco/animation/keyframe_animation_encoder.h"
#include "draco/compression/config/encoder_options.h"

using namespace draco;
using vf::Reporter;
using vf::Rng;

struct Track { DataType dt; int nc; std::vector<uint8_t> bytes; int qbits; int32_t id; };

template <typename T>
static int32_t AddTyped(KeyframeAnimation *a, const Track &t) {
  std::vector<T> v(t.bytes.size() / sizeof(T));
  memcpy(v.data(), t.bytes.data(), t.bytes.size());
  return a->AddKeyframes<T>(t.dt, t.nc, v);
}
static int32_t Add(KeyframeAnimation *a, const Track &t) {
  switch (t.dt) {
    case DT_INT8: return AddTyped<int8_t>(a, t);
    case DT_UINT8: return AddTyped<uint8_t>(a, t);
    case DT_INT16: return AddTyped<int16_t>(a, t);
    case DT_UINT16: return AddTyped<uint16_t>(a, t);
    case DT_INT32: return AddTyped<int32_t>(a, t);
    case DT_UINT32: return AddTyped<uint32_t>(a, t);
    default: return AddTyped<float>(a, t);
  }
}

int main(int argc, char **argv) {
  return vf::RunHarness(argc, argv, "C20", [](int64_t k, Rng &r, Reporter &rep) {
    const bool thorough = rep.args().tier == "thorough";
    int n;
    switch (r.below(8)) { case 0: n = 1; break; case 1: n = 2 + r.below(4); break; case 2: n = thorough ? 10000 + r.below(90000) : 2000 + r.below(8000); break; default: n = 2 + r.below(300); break; }
    const int ntracks = static_cast<int>(r.below(9));
    std::vector<float> ts(n);
    {
      int mode = r.below(3);
      float t = static_cast<float>(r.uniform(-10, 10));
      for (int i = 0; i < n; ++i) { ts[i] = mode == 0 ? t : mode == 1 ? static_cast<float>(r.uniform(-1e6, 1e6)) : (i % 3 == 0 ? -0.f : t); t += static_cast<float>(r.unit() * 0.1); }
    }
    static const DataType types[] = {DT_INT8, DT_UINT8, DT_INT16, DT_UINT16, DT_INT32, DT_UINT32, DT_FLOAT32};
    std::vector<Track> tracks(ntracks);
    bool special = false;
    for (auto &t : tracks) {
      t.dt = types[r.below(7)];
      if (r.below(2)) t.dt = DT_FLOAT32;
      t.nc = r.below(4) == 0 ? static_cast<int>(r.range(5, 16)) : static_cast<int>(r.range(1, 4));
      const int len = DataTypeLength(t.dt);
      t.bytes.resize(static_cast<size_t>(n) * t.nc * len);
      t.qbits = -1;
      if (t.dt == DT_FLOAT32) {
        const int b[] = {1, 4, 8, 11, 14, 16, 20, 24, 30};
        if (r.below(2)) t.qbits = r.below(3) == 0 ? static_cast<int>(r.range(1, 30)) : b[r.below(9)];
        const float scale = static_cast<float>(std::pow(10.0, r.uniform(-3, 4)));
        const float off = r.below(3) == 0 ? static_cast<float>(r.uniform(-1000, 1000)) : 0.f;
        const int mode = r.below(3);
        for (size_t i = 0; i < static_cast<size_t>(n) * t.nc; ++i) {
          float v = mode == 0 ? static_cast<float>(std::sin(0.01 * i) * scale + off) : mode == 1 ? static_cast<float>(r.uniform(-1, 1) * scale + off) : off;
          memcpy(&t.bytes[i * 4], &v, 4);
        }
        if (t.qbits < 0 && r.below(4) == 0) { float v = r.below(2) ? NAN : -0.f; memcpy(&t.bytes[4 * r.below(static_cast<size_t>(n) * t.nc)], &v, 4); }  // unquantized tracks keep any bit pattern
      } else {
        const int mode = r.below(3);
        for (size_t i = 0; i < static_cast<size_t>(n) * t.nc; ++i) {
          int64_t v = mode == 0 ? static_cast<int64_t>(i % 100) : mode == 1 ? static_cast<int64_t>(r.below(1u << (8 * std::min(len, 3)))) : 7;
          if (t.dt == DT_INT8 || t.dt == DT_INT16 || t.dt == DT_INT32) v -= (mode == 1 ? (1ll << (8 * std::min(len, 3) - 1)) : 20);
          if (len == 4 && mode == 1 && r.below(50) == 0) v = (t.dt == DT_INT32) ? static_cast<int64_t>(r.range(-(1 << 29), 1 << 29)) : static_cast<int64_t>(r.below(1u << 30));
          memcpy(&t.bytes[i * len], &v, len);
        }
      }
    }
    // NaN/Inf in a quantized track: the encoder must refuse.
    int special_track = -1;
    if (r.below(12) == 0) for (int i = 0; i < ntracks; ++i) if (tracks[i].qbits > 0) { float v = r.below(2) ? NAN : INFINITY; memcpy(&tracks[i].bytes[4 * r.below(static_cast<size_t>(n) * tracks[i].nc)], &v, 4); special = true; special_track = i; break; }
    KeyframeAnimation anim;
    const bool ts_first = r.below(2) != 0 || ntracks == 0;
    if (ts_first && !anim.SetTimestamps(ts)) { fprintf(stderr, "SetTimestamps failed\n"); abort(); }
    for (auto &t : tracks) { t.id = Add(&anim, t); if (t.id < 0) { rep.violation("AddKeyframes-refused-consistent-data", "nc=" + std::to_string(t.nc)); return; } }
    if (!ts_first && !anim.SetTimestamps(ts)) { rep.violation("SetTimestamps-refused-after-keyframes", "n=" + std::to_string(n)); return; }
    EncoderOptions opt = EncoderOptions::CreateDefaultOptions();
    int speed = -1;
    if (r.below(4) != 0) { speed = r.below(11); opt.SetSpeed(speed, speed); }
    {
      // The per-track options are applied in a random order (ascending ids is only one of the orders a caller may use).
      std::vector<int> order(tracks.size());
      for (size_t i = 0; i < order.size(); ++i) order[i] = static_cast<int>(i);
      const int order_mode = static_cast<int>(r.below(3));
      if (order_mode == 1) std::reverse(order.begin(), order.end());
      else if (order_mode == 2) for (size_t i = order.size(); i > 1; --i) std::swap(order[i - 1], order[r.below(i)]);
      for (int i : order) if (tracks[i].qbits > 0) opt.SetAttributeInt(tracks[i].id, "quantization_bits", tracks[i].qbits);
      rep.count(std::string("option_order/") + (order_mode == 0 ? "ascending" : order_mode == 1 ? "descending" : "shuffled"));
    }
    if (r.below(4) == 0) opt.SetGlobalBool("use_built_in_attribute_compression", r.below(2) != 0);
    std::string desc = "frames=" + std::to_string(n) + " tracks=" + std::to_string(ntracks) + " ts_first=" + std::to_string(ts_first) + " speed=" + std::to_string(speed) + " [";
    for (auto &t : tracks) desc += "dt" + std::to_string(t.dt) + "x" + std::to_string(t.nc) + "q" + std::to_string(t.qbits) + " ";
    desc += "]";
    rep.note(desc);
    EncoderBuffer eb;
    KeyframeAnimationEncoder enc;
    Status st = enc.EncodeKeyframeAnimation(anim, opt, &eb);
    if (!st.ok()) {
      rep.count(std::string("encoder_refused/") + (special ? "nan-inf-in-quantized-track" : st.error_msg()));
      rep.held(0, false);
      return;
    }
    std::string bytes(eb.data(), eb.size());
    rep.stage(0, "stream.drc", bytes.data(), bytes.size());
    std::vector<Reporter::Artifact> arts = {{"stream.drc", bytes}, {"case.txt", desc}};
    if (special) { rep.violation("encoder-accepted-nan-inf-in-quantized-track", desc + " track=" + std::to_string(special_track), arts); return; }
    DecoderBuffer db;
    db.Init(bytes.data(), bytes.size());
    KeyframeAnimation out;
    KeyframeAnimationDecoder dec;
    DecoderOptions dopt;
    Status ds = dec.Decode(dopt, &db, &out);
    if (!ds.ok()) { rep.violation("decode-refuses-own-stream", desc + " :: " + ds.error_msg(), arts); return; }
    if (out.num_frames() != n) { rep.violation("num-frames-differs", desc + " decoded=" + std::to_string(out.num_frames()), arts); return; }
    if (out.num_animations() != ntracks) { rep.violation("num-animations-differs", desc + " decoded=" + std::to_string(out.num_animations()), arts); return; }
    const PointAttribute *ta = out.timestamps();
    if (!ta || ta->data_type() != DT_FLOAT32 || ta->num_components() != 1 || ta->size() < static_cast<size_t>(n)) { rep.violation("timestamps-missing-or-retyped", desc, arts); return; }
    for (int i = 0; i < n; ++i) {
      float v;
      ta->GetMappedValue(PointIndex(i), &v);
      if (memcmp(&v, &ts[i], 4) != 0) { rep.violation("timestamp-differs", desc + " frame=" + std::to_string(i), arts); return; }
    }
    int64_t qvals = 0;
    for (auto &t : tracks) {
      const PointAttribute *a = out.keyframes(t.id);
      if (!a) { rep.violation("track-not-retrievable-under-its-id", desc + " id=" + std::to_string(t.id), arts); return; }
      if (a->data_type() != t.dt || a->num_components() != t.nc) { rep.violation("track-retyped", desc + " id=" + std::to_string(t.id), arts); return; }
      const int len = DataTypeLength(t.dt);
      const size_t rec = static_cast<size_t>(t.nc) * len;
      if (t.qbits <= 0) {
        std::vector<uint8_t> buf(rec);
        for (int i = 0; i < n; ++i) {
          a->GetMappedValue(PointIndex(i), buf.data());
          if (memcmp(buf.data(), &t.bytes[i * rec], rec) != 0) { rep.violation("unquantized-track-differs/dt" + std::to_string(t.dt), desc + " id=" + std::to_string(t.id) + " frame=" + std::to_string(i), arts); return; }
        }
      } else {
        vf::RefQuant rq;
        const float *src = reinterpret_cast<const float *>(t.bytes.data());
        if (!vf::RefQuant::FromValues(src, n, t.nc, t.qbits, &rq)) { rep.violation("encoder-accepted-unquantizable-track", desc, arts); return; }
        // analytic bound (C04) in double
        double R = rq.range, mag = R;
        for (int c = 0; c < t.nc; ++c) mag = std::max(mag, std::fabs(static_cast<double>(rq.mins[c])) + R);
        const double step = R / (std::ldexp(1.0, t.qbits) - 1), A = std::ldexp(mag, -21);
        std::vector<float> y(t.nc);
        for (int i = 0; i < n; ++i) {
          a->GetMappedValue(PointIndex(i), y.data());
          for (int c = 0; c < t.nc; ++c) {
            const float x = src[i * t.nc + c], want = rq.Apply(x, c);
            if (std::fabs(static_cast<double>(y[c]) - x) > step / 2 + A) { rep.violation("quantized-track-outside-half-step-bound", desc + " id=" + std::to_string(t.id) + " frame=" + std::to_string(i), arts); return; }
            if (memcmp(&want, &y[c], 4) != 0) { rep.violation("quantized-track-differs-from-reference-quantization", desc + " id=" + std::to_string(t.id) + " frame=" + std::to_string(i) + " want=" + std::to_string(want) + " got=" + std::to_string(y[c]), arts); return; }
            ++qvals;
          }
        }
      }
      rep.count(std::string("track/") + (t.qbits > 0 ? "quantized" : "exact") + "/dt" + std::to_string(t.dt));
    }
    if (db.remaining_size() != 0) { rep.violation("stream-not-consumed", desc, arts); return; }
    rep.count("frames", n);
    rep.count("tracks/" + std::to_string(ntracks));
    rep.count(std::string("order/") + (ts_first ? "timestamps-first" : "keyframes-first"));
    rep.count("quantized_values_checked", qvals);
    rep.count("speed/" + std::to_string(speed));
    rep.held(vf::HashBytes(bytes.data(), bytes.size()), true);
    if (r.below(200) == 0) rep.sample("{\"case\":\"" + vf::JsonEscape(desc) + "\",\"bytes\":" + std::to_string(bytes.size()) + "}");
  });
}
