// C16: prediction-correction transforms are exactly invertible for any prediction.
// Oracle: ComputeOriginalValue(pred, ComputeCorrection(orig, pred)) == orig, corrections
// inside the announced interval; UBSan/ASan watch the header-only transform code, which
// is instantiated here from /repo's current headers.
#include <climits>

#include "common/runner.h"
#include "draco/compression/attributes/normal_compression_utils.h"
#include "draco/compression/attributes/prediction_schemes/prediction_scheme_normal_octahedron_canonicalized_decoding_transform.h"
#include "draco/compression/attributes/prediction_schemes/prediction_scheme_normal_octahedron_canonicalized_encoding_transform.h"
#include "draco/compression/attributes/prediction_schemes/prediction_scheme_wrap_decoding_transform.h"
#include "draco/compression/attributes/prediction_schemes/prediction_scheme_wrap_encoding_transform.h"
#include "draco/core/decoder_buffer.h"
#include "draco/core/encoder_buffer.h"

using namespace draco;
using vf::Reporter;
using vf::Rng;

struct WrapEnc : PredictionSchemeWrapEncodingTransform<int32_t, int32_t> {
  int32_t lo() const { return min_correction(); }
  int32_t hi() const { return max_correction(); }
};
typedef PredictionSchemeWrapDecodingTransform<int32_t, int32_t> WrapDec;

struct WrapPair {
  WrapEnc enc;
  WrapDec dec;
  int32_t mn, mx;
  bool ok;
  WrapPair(int32_t mn_, int32_t mx_) : mn(mn_), mx(mx_) {
    int32_t d[2] = {mn, mx};
    enc.Init(d, 2, 1);
    EncoderBuffer eb;
    enc.EncodeTransformData(&eb);
    DecoderBuffer db;
    db.Init(eb.data(), eb.size());
    dec.Init(1);
    ok = dec.DecodeTransformData(&db);
  }
  // returns 0 ok, 1 not invertible, 2 correction outside announced interval
  int check(int32_t orig, int32_t pred, int32_t *out_corr, int32_t *out_dec) {
    int32_t corr = 0, rec = 0;
    enc.ComputeCorrection(&orig, &pred, &corr);
    dec.ComputeOriginalValue(&pred, &corr, &rec);
    *out_corr = corr;
    *out_dec = rec;
    if (rec != orig) return 1;
    // independent statement of the announced interval
    const int64_t max_dif = static_cast<int64_t>(mx) - mn + 1;
    int64_t hi = max_dif / 2, lo = -hi;
    if ((max_dif & 1) == 0) hi -= 1;
    if (corr < lo || corr > hi || corr < enc.lo() || corr > enc.hi()) return 2;
    return 0;
  }
};

static std::string Tup(int32_t mn, int32_t mx, int32_t o, int32_t p, int32_t c, int32_t d) {
  return "min=" + std::to_string(mn) + " max=" + std::to_string(mx) + " orig=" + std::to_string(o) + " pred=" + std::to_string(p) +
         " corr=" + std::to_string(c) + " decoded=" + std::to_string(d);
}

static std::string WrapClass(int32_t mn, int32_t mx) {
  int64_t w = static_cast<int64_t>(mx) - mn;
  std::string c = w <= 40 ? "small" : w < (1 << 16) ? "medium" : w < (1ll << 30) ? "large" : "huge";
  if (mn < INT_MIN / 2 && mx < 0) c += "/near-int-min";
  else if (mx > INT_MAX / 2 && mn > 0) c += "/near-int-max";
  else c += "/around-zero";
  return c;
}

static void WrapSmallExhaustive(int64_t idx, Reporter &rep) {
  int32_t mn = -50 + static_cast<int32_t>(idx / 41);
  int32_t w = static_cast<int32_t>(idx % 41);
  int32_t mx = mn + w;
  WrapPair wp(mn, mx);
  if (!wp.ok) { rep.violation("wrap/init-refused/small", Tup(mn, mx, 0, 0, 0, 0)); return; }
  int64_t n = 0;
  const int32_t extremes[] = {INT_MIN, INT_MIN + 1, -1, 0, 1, INT_MAX - 1, INT_MAX};
  for (int32_t o = mn; o <= mx; ++o) {
    auto one = [&](int32_t p) -> bool {
      int32_t c, d;
      int rc = wp.check(o, p, &c, &d);
      ++n;
      if (rc) { rep.violation(std::string(rc == 1 ? "wrap/not-invertible/" : "wrap/correction-out-of-interval/") + WrapClass(mn, mx), Tup(mn, mx, o, p, c, d)); return false; }
      return true;
    };
    for (int32_t p = mn - 3 * w - 3; p <= mx + 3 * w + 3; ++p) if (!one(p)) return;
    for (int32_t p : extremes) if (!one(p)) return;
  }
  rep.count("wrap_small_tuples", n);
  rep.count("wrap_small_ranges");
  rep.held(vf::HashCombine(0x16a, idx), true);
  if (idx % 997 == 0) rep.sample("{\"transform\":\"wrap\",\"min\":" + std::to_string(mn) + ",\"max\":" + std::to_string(mx) + ",\"tuples\":" + std::to_string(n) + ",\"exhaustive\":true}");
}

static int32_t NearPick(Rng &r, int32_t mn, int32_t mx) {
  switch (r.below(10)) {
    case 0: return mn;
    case 1: return mx;
    case 2: return static_cast<int32_t>(static_cast<int64_t>(mn) + r.below(std::min<int64_t>(4, static_cast<int64_t>(mx) - mn + 1)));
    case 3: return static_cast<int32_t>(static_cast<int64_t>(mx) - r.below(std::min<int64_t>(4, static_cast<int64_t>(mx) - mn + 1)));
    case 4: return static_cast<int32_t>(mn + (static_cast<int64_t>(mx) - mn) / 2 + r.range(-1, 1) * ((static_cast<int64_t>(mx) - mn) > 2));
    default: return static_cast<int32_t>(mn + static_cast<int64_t>(r.below(static_cast<uint64_t>(static_cast<int64_t>(mx) - mn) + 1)));
  }
}
static int32_t AnyPred(Rng &r, int32_t mn, int32_t mx) {
  switch (r.below(12)) {
    case 0: return INT_MIN;
    case 1: return INT_MAX;
    case 2: return INT_MIN + static_cast<int32_t>(r.below(5));
    case 3: return INT_MAX - static_cast<int32_t>(r.below(5));
    case 4: return static_cast<int32_t>(r.range(-2, 2));
    case 5: { int64_t v = static_cast<int64_t>(mn) - 1 - r.below(1000); return v < INT_MIN ? INT_MIN : static_cast<int32_t>(v); }
    case 6: { int64_t v = static_cast<int64_t>(mx) + 1 + r.below(1000); return v > INT_MAX ? INT_MAX : static_cast<int32_t>(v); }
    case 7: case 8: return NearPick(r, mn, mx);
    default: return static_cast<int32_t>(r.u32());
  }
}

static void WrapRandom(Rng &r, Reporter &rep, int tuples) {
  int64_t mn64, mx64;
  switch (r.below(8)) {
    case 0: mn64 = INT_MIN + static_cast<int64_t>(r.below(3)); mx64 = mn64 + r.below(200); break;                 // small, at INT_MIN
    case 1: mx64 = INT_MAX - static_cast<int64_t>(r.below(3)); mn64 = mx64 - r.below(200); break;                 // small, at INT_MAX
    case 2: mn64 = INT_MIN + static_cast<int64_t>(r.below(1000)); mx64 = mn64 + (1ll << 31) - 2 - r.below(3); break;  // widest allowed
    case 3: mx64 = INT_MAX - static_cast<int64_t>(r.below(1000)); mn64 = mx64 - ((1ll << 31) - 2 - r.below(3)); break;
    case 4: { int64_t w = 1ll << r.range(1, 30); mn64 = r.range(INT_MIN, INT_MAX - w); mx64 = mn64 + w + r.range(-1, 1); break; }
    case 5: { int64_t w = r.below((1ull << 31) - 1); mn64 = r.range(INT_MIN, INT_MAX - w); mx64 = mn64 + w; break; }
    case 6: { mn64 = -static_cast<int64_t>(r.below(1ull << 30)); mx64 = static_cast<int64_t>(r.below(1ull << 30)); break; }  // quantized-like, around zero
    default: { mn64 = 0; mx64 = (1ll << r.range(1, 30)) - 1; break; }                                                // [0, 2^q-1]
  }
  if (mx64 > INT_MAX) mx64 = INT_MAX;
  if (mn64 < INT_MIN) mn64 = INT_MIN;
  if (mx64 < mn64) mx64 = mn64;
  if (mx64 - mn64 >= (1ll << 31) - 1) mx64 = mn64 + (1ll << 31) - 2;
  int32_t mn = static_cast<int32_t>(mn64), mx = static_cast<int32_t>(mx64);
  rep.note("wrap " + std::to_string(mn) + " " + std::to_string(mx));
  WrapPair wp(mn, mx);
  std::string cls = WrapClass(mn, mx);
  if (!wp.ok) { rep.violation("wrap/init-refused/" + cls, Tup(mn, mx, 0, 0, 0, 0)); return; }
  for (int i = 0; i < tuples; ++i) {
    int32_t o = NearPick(r, mn, mx), p = AnyPred(r, mn, mx), c, d;
    int rc = wp.check(o, p, &c, &d);
    if (rc) { rep.violation(std::string(rc == 1 ? "wrap/not-invertible/" : "wrap/correction-out-of-interval/") + cls, Tup(mn, mx, o, p, c, d)); return; }
  }
  rep.count("wrap_random_tuples", tuples);
  rep.count("wrap_random_ranges/" + cls);
  rep.held(vf::HashCombine(vf::HashCombine(0x16b, static_cast<uint32_t>(mn)), static_cast<uint32_t>(mx)), true);
  if (r.below(50) == 0) rep.sample("{\"transform\":\"wrap\",\"min\":" + std::to_string(mn) + ",\"max\":" + std::to_string(mx) + ",\"tuples\":" + std::to_string(tuples) + "}");
}

// ---- canonicalized octahedral transform ---------------------------------------------
typedef PredictionSchemeNormalOctahedronCanonicalizedEncodingTransform<int32_t> OctEnc;
typedef PredictionSchemeNormalOctahedronCanonicalizedDecodingTransform<int32_t> OctDec;

// Independent re-statement of the canonical-representative rule (DESIGN §4.4).
static void RefCanon(int32_t maxv, int32_t s, int32_t t, int32_t *os, int32_t *ot) {
  const int32_t c = maxv / 2;
  if ((s == 0 && t == 0) || (s == 0 && t == maxv) || (s == maxv && t == 0)) { s = maxv; t = maxv; }
  else if (s == 0 && t > c) t = 2 * c - t;
  else if (s == maxv && t < c) t = 2 * c - t;
  else if (t == maxv && s < c) s = 2 * c - s;
  else if (t == 0 && s > c) s = 2 * c - s;
  *os = s; *ot = t;
}

struct OctPair {
  OctEnc enc;
  OctDec dec;
  OctahedronToolBox tb;
  int q;
  int32_t maxv;
  bool ok;
  explicit OctPair(int q_) : enc((1 << q_) - 1), q(q_), maxv((1 << q_) - 2) {
    EncoderBuffer eb;
    enc.EncodeTransformData(&eb);
    DecoderBuffer db;
    db.Init(eb.data(), eb.size());
    ok = dec.DecodeTransformData(&db) && tb.SetQuantizationBits(q);
  }
  bool canonical(int32_t s, int32_t t) {
    int32_t a, b, c, d;
    RefCanon(maxv, s, t, &a, &b);
    tb.CanonicalizeOctahedralCoords(s, t, &c, &d);
    if (a != c || b != d) return false;  // disagreement is reported by caller through count
    return a == s && b == t;
  }
  int check(const int32_t *o, const int32_t *p, int32_t *corr, int32_t *rec) {
    enc.ComputeCorrection(o, p, corr);
    dec.ComputeOriginalValue(p, corr, rec);
    if (rec[0] != o[0] || rec[1] != o[1]) return 1;
    if (corr[0] < 0 || corr[1] < 0 || corr[0] > maxv || corr[1] > maxv) return 2;
    return 0;
  }
};

static std::string OTup(int q, const int32_t *o, const int32_t *p, const int32_t *c, const int32_t *d) {
  char b[256];
  snprintf(b, sizeof b, "q=%d orig=(%d,%d) pred=(%d,%d) corr=(%d,%d) decoded=(%d,%d)", q, o[0], o[1], p[0], p[1], c[0], c[1], d[0], d[1]);
  return b;
}

// One case = one (q, pred row s_p): all canonical preds in the row x all canonical origs.
static void OctExhaustiveRow(int q, int32_t sp, Reporter &rep) {
  OctPair op(q);
  if (!op.ok) { rep.violation("octa/init-refused", "q=" + std::to_string(q)); return; }
  int64_t n = 0;
  std::vector<std::pair<int32_t, int32_t>> canon;
  for (int32_t s = 0; s <= op.maxv; ++s) for (int32_t t = 0; t <= op.maxv; ++t) {
    int32_t a, b, c, d;
    RefCanon(op.maxv, s, t, &a, &b);
    op.tb.CanonicalizeOctahedralCoords(s, t, &c, &d);
    if (a != c || b != d) { rep.violation("octa/canonicalization-differs-from-reference", "q=" + std::to_string(q) + " s=" + std::to_string(s) + " t=" + std::to_string(t)); return; }
    if (a == s && b == t) canon.push_back({s, t});
  }
  for (auto &pp : canon) {
    if (pp.first != sp) continue;
    int32_t p[2] = {pp.first, pp.second};
    for (auto &oo : canon) {
      int32_t o[2] = {oo.first, oo.second}, c[2], d[2];
      int rc = op.check(o, p, c, d);
      ++n;
      if (rc) { rep.violation(std::string(rc == 1 ? "octa/not-invertible/q=" : "octa/correction-out-of-interval/q=") + std::to_string(q), OTup(q, o, p, c, d)); return; }
    }
  }
  rep.count("octa_exhaustive_pairs/q=" + std::to_string(q), n);
  rep.count("octa_exhaustive_rows/q=" + std::to_string(q));
  rep.held(vf::HashCombine(0x16c00 + q, sp), n > 0);
}

static int32_t OctCoord(Rng &r, int32_t maxv) {
  const int32_t c = maxv / 2;
  switch (r.below(9)) {
    case 0: return 0;
    case 1: return maxv;
    case 2: return c;
    case 3: return c + static_cast<int32_t>(r.range(-2, 2));
    case 4: return static_cast<int32_t>(r.below(4));
    case 5: return maxv - static_cast<int32_t>(r.below(4));
    default: return static_cast<int32_t>(r.below(static_cast<uint64_t>(maxv) + 1));
  }
}

static void OctSampled(Rng &r, Reporter &rep, int q, int tuples) {
  OctPair op(q);
  if (!op.ok) { rep.violation("octa/init-refused", "q=" + std::to_string(q)); return; }
  rep.note("octa q=" + std::to_string(q));
  int64_t n = 0;
  const int32_t c = op.maxv / 2;
  for (int i = 0; i < tuples; ++i) {
    int32_t raw[2][2];
    for (int j = 0; j < 2; ++j) {
      raw[j][0] = OctCoord(r, op.maxv);
      raw[j][1] = OctCoord(r, op.maxv);
      if (r.below(4) == 0) {  // on a diamond edge |s-c|+|t-c| == c (rotation / inversion switch points) +-1
        int32_t a = static_cast<int32_t>(r.below(static_cast<uint64_t>(c) + 1));
        int32_t b = c - a + static_cast<int32_t>(r.range(-1, 1));
        if (b < 0) b = 0; if (b > c) b = c;
        raw[j][0] = c + (r.below(2) ? a : -a);
        raw[j][1] = c + (r.below(2) ? b : -b);
      }
      int32_t s, t;
      RefCanon(op.maxv, raw[j][0], raw[j][1], &s, &t);
      raw[j][0] = s; raw[j][1] = t;
      int32_t cs, ct;
      op.tb.CanonicalizeOctahedralCoords(s, t, &cs, &ct);
      if (cs != s || ct != t) { rep.violation("octa/canonicalization-not-idempotent", "q=" + std::to_string(q) + " s=" + std::to_string(s) + " t=" + std::to_string(t)); return; }
    }
    int32_t cc[2], d[2];
    int rc = op.check(raw[0], raw[1], cc, d);
    ++n;
    if (rc) { rep.violation(std::string(rc == 1 ? "octa/not-invertible/q=" : "octa/correction-out-of-interval/q=") + std::to_string(q), OTup(q, raw[0], raw[1], cc, d)); return; }
  }
  rep.count("octa_sampled_pairs", n);
  rep.count("octa_sampled_cases/q=" + std::to_string(q));
  rep.held(vf::HashCombine(0x16d00 + q, r.next()), true);
  if (r.below(50) == 0) rep.sample("{\"transform\":\"octahedral-canonicalized\",\"q\":" + std::to_string(q) + ",\"pairs\":" + std::to_string(n) + "}");
}

int main(int argc, char **argv) {
  return vf::RunHarness(argc, argv, "C16", [](int64_t k, Rng &r, Reporter &rep) {
    const bool thorough = rep.args().tier == "thorough";
    // Block A: all small wrap ranges, exhaustive (4141 cases).
    const int64_t kWrapSmall = 101 * 41;
    if (k < kWrapSmall) { WrapSmallExhaustive(k, rep); return; }
    k -= kWrapSmall;
    // Block B: exhaustive octahedral rows for q = 2..5 (quick) / 2..6 (thorough).
    const int qmax = thorough ? 6 : 5;
    for (int q = 2; q <= qmax; ++q) {
      int64_t rows = (1 << q) - 1;
      if (k < rows) { OctExhaustiveRow(q, static_cast<int32_t>(k), rep); return; }
      k -= rows;
    }
    // Block C: random; alternate wrap / octa.
    if (k % 2 == 0) WrapRandom(r, rep, thorough ? 20000 : 3000);
    else OctSampled(r, rep, 7 + static_cast<int>((k / 2) % 24), thorough ? 20000 : 3000);
  });
}
