// C10: decoding with the attribute transform skipped exposes integer data + a transform
// description that reproduce the ordinary decode bit-exactly; everything else is unaffected.
// Metamorphic monitor over two decodes of the same stream.
#include <set>

#include "common/canon.h"
#include "common/codec.h"
#include "common/geo.h"
#include "common/runner.h"
#include "draco/attributes/attribute_octahedron_transform.h"
#include "draco/attributes/attribute_quantization_transform.h"
#include "draco/compression/attributes/normal_compression_utils.h"

using namespace draco;
using vf::Reporter;
using vf::Rng;

static std::string ReadFile(const std::string &p) {
  std::string s;
  FILE *f = fopen(p.c_str(), "rb");
  if (!f) return s;
  char b[65536];
  size_t n;
  while ((n = fread(b, 1, sizeof b, f)) > 0) s.append(b, n);
  fclose(f);
  return s;
}

// Returns "" or the violated clause. stream may come from the generator or from testdata.
static std::string CheckStream(const std::string &bytes, Rng &r, Reporter &rep, const std::string &desc, std::string *cls, const std::set<uint32_t> *quantized_uids = nullptr) {
  vf::DecResult full = vf::Decode(bytes.data(), bytes.size());
  if (!full.status.ok()) return "";  // not this property's business (C01/C05)
  const int method = static_cast<uint8_t>(bytes[8]);
  const bool is_mesh = full.mesh != nullptr;
  *cls = is_mesh ? (method == MESH_EDGEBREAKER_ENCODING ? "edgebreaker" : "mesh-sequential") : (method == POINT_CLOUD_KD_TREE_ENCODING ? "kd-tree" : "pc-sequential");
  // Attribute types present.
  std::vector<GeometryAttribute::Type> present;
  for (int i = 0; i < full.pc->num_attributes(); ++i) {
    auto t = full.pc->attribute(i)->attribute_type();
    if (std::find(present.begin(), present.end(), t) == present.end()) present.push_back(t);
  }
  // Every subset for small k, random subsets otherwise (always including the empty and the full set once in a while).
  const uint32_t nsub = 1u << present.size();
  std::vector<uint32_t> subsets;
  if (nsub <= 8) for (uint32_t m = 0; m < nsub; ++m) subsets.push_back(m);
  else { subsets = {0, nsub - 1}; for (int i = 0; i < 4; ++i) subsets.push_back(static_cast<uint32_t>(r.below(nsub))); }
  for (uint32_t m : subsets) {
    std::vector<GeometryAttribute::Type> skip;
    for (size_t i = 0; i < present.size(); ++i) if (m & (1u << i)) skip.push_back(present[i]);
    vf::DecResult sk = vf::Decode(bytes.data(), bytes.size(), skip);
    if (!sk.status.ok()) return "skip-decode-fails: " + std::string(sk.status.error_msg());
    if (sk.pc->num_points() != full.pc->num_points()) return "point-count-differs";
    if (sk.pc->num_attributes() != full.pc->num_attributes()) return "attribute-count-differs";
    if (is_mesh) {
      if (!sk.mesh || sk.mesh->num_faces() != full.mesh->num_faces()) return "face-count-differs";
      for (uint32_t f = 0; f < full.mesh->num_faces(); ++f) for (int j = 0; j < 3; ++j) if (sk.mesh->face(FaceIndex(f))[j] != full.mesh->face(FaceIndex(f))[j]) return "connectivity-differs";
    }
    const uint32_t np = full.pc->num_points();
    for (int i = 0; i < full.pc->num_attributes(); ++i) {
      const PointAttribute *fa = full.pc->attribute(i);
      const bool skipped = std::find(skip.begin(), skip.end(), fa->attribute_type()) != skip.end();
      // The attribute must be retrievable under its original unique id.
      // Same stream => same attribute order; the attribute must keep its unique id (legacy streams may carry
      // duplicate ids, so the lookup is by position and the id is compared).
      const PointAttribute *sa = sk.pc->attribute(i);
      if (!sa || sa->unique_id() != fa->unique_id()) return std::string(skipped ? "skipped" : "unskipped") + "-attribute-lost-its-unique-id: att " + std::to_string(i) + " id " + std::to_string(fa->unique_id()) + " -> " + std::to_string(sa ? sa->unique_id() : 0);
      if (sa->attribute_type() != fa->attribute_type()) return "attribute-type-differs";
      const AttributeTransformData *td = sa->GetAttributeTransformData();
      const bool transformed = skipped && td != nullptr && td->transform_type() != ATTRIBUTE_INVALID_TRANSFORM;
      if (!transformed) {
        // Must be identical to the ordinary decode (attributes outside S, or attributes in S that carry no transform).
        if (skipped && IsDataTypeIntegral(fa->data_type()) && IsDataTypeIntegral(sa->data_type()) && sa->num_components() == fa->num_components() && (sa->data_type() != fa->data_type() || sa->normalized() != fa->normalized())) {
          // An integer attribute of a skipped type comes back as its portable int32 image (normalized flag cleared) without a transform
          // description (identity). The property speaks about quantized attributes; here only numerical equality is required.
          std::vector<int64_t> a(fa->num_components()), b(fa->num_components());
          for (uint32_t p = 0; p < np; ++p) {
            if (!fa->ConvertValue<int64_t>(fa->mapped_index(PointIndex(p)), a.data()) || !sa->ConvertValue<int64_t>(sa->mapped_index(PointIndex(p)), b.data())) return "integer-attribute-not-convertible";
            if (a != b) return "skipped-integer-attribute-values-differ";
          }
          rep.count("attribute/skipped-integer-widened-to-int32");
          continue;
        }
        if (sa->data_type() != fa->data_type() || sa->num_components() != fa->num_components() || sa->normalized() != fa->normalized())
          return std::string(skipped ? "untransformed-skipped" : "unskipped") + "-attribute-descriptor-differs: att " + std::to_string(i) + " type " + std::to_string(fa->attribute_type()) + " dt " + std::to_string(fa->data_type()) + "->" + std::to_string(sa->data_type()) +
                 " nc " + std::to_string(fa->num_components()) + "->" + std::to_string(sa->num_components()) + " transform " + std::to_string(td ? static_cast<int>(td->transform_type()) : -9);
        const size_t n = static_cast<size_t>(fa->num_components()) * DataTypeLength(fa->data_type());
        for (uint32_t p = 0; p < np; ++p) {
          if (memcmp(sa->GetAddress(sa->mapped_index(PointIndex(p))), fa->GetAddress(fa->mapped_index(PointIndex(p))), n) != 0) return std::string(skipped ? "untransformed-skipped" : "unskipped") + "-attribute-values-differ";
        }
        // A float attribute that was quantized in the stream must expose a transform when skipped.
        if (skipped && fa->data_type() == DT_FLOAT32 && rep.args().GetInt("expect-transform-att", -1) == i) return "skipped-quantized-attribute-without-transform-data";
        // The encoder was asked to quantize this float attribute: with its type in the skip set it must come back as
        // integers with a transform description, not dequantized.
        if (skipped && fa->data_type() == DT_FLOAT32 && quantized_uids && quantized_uids->count(fa->unique_id())) return "skipped-quantized-attribute-came-back-dequantized: att " + std::to_string(i) + " type " + std::to_string(fa->attribute_type());
        rep.count(skipped ? "attribute/skipped-without-transform" : "attribute/not-skipped");
        continue;
      }
      // Skipped + transformed: integer typed, described transform reproduces the ordinary decode.
      if (!IsDataTypeIntegral(sa->data_type())) return "skipped-attribute-not-integer";
      if (fa->data_type() != DT_FLOAT32) return "transform-on-non-float-attribute";
      GeometryAttribute ga;
      ga.Init(fa->attribute_type(), nullptr, fa->num_components(), DT_FLOAT32, false, 4 * fa->num_components(), 0);
      PointAttribute target(ga);
      target.Reset(sa->size());
      if (td->transform_type() == ATTRIBUTE_QUANTIZATION_TRANSFORM) {
        if (sa->num_components() != fa->num_components()) return "quantized-component-count-differs";
        AttributeQuantizationTransform t;
        if (!t.InitFromAttribute(*sa)) return "InitFromAttribute-fails";
        if (!t.InverseTransformAttribute(*sa, &target)) return "InverseTransformAttribute-fails";
        vf::RefQuant rq;
        rq.bits = t.quantization_bits(); rq.nc = fa->num_components(); rq.mins = t.min_values(); rq.range = t.range();
        for (uint32_t p = 0; p < np; ++p) {
          const AttributeValueIndex vi = sa->mapped_index(PointIndex(p));
          float a[8], b[8], c[8];
          int32_t q[8];
          fa->GetMappedValue(PointIndex(p), a);
          target.GetValue(vi, b);
          sa->ConvertValue<int32_t>(vi, q);
          for (int k = 0; k < fa->num_components(); ++k) c[k] = rq.Dequantize(q[k], k);
          if (memcmp(a, b, 4 * fa->num_components()) != 0) return "described-quantization-transform-does-not-reproduce-decode";
          if (memcmp(a, c, 4 * fa->num_components()) != 0) return "reference-dequantizer-with-described-parameters-differs";
        }
        rep.count("attribute/skipped-quantization");
      } else if (td->transform_type() == ATTRIBUTE_OCTAHEDRON_TRANSFORM) {
        if (sa->num_components() != 2 || fa->num_components() != 3) return "octahedral-component-count";
        AttributeOctahedronTransform t;
        if (!t.InitFromAttribute(*sa)) return "InitFromAttribute-fails";
        if (!t.InverseTransformAttribute(*sa, &target)) return "InverseTransformAttribute-fails";
        OctahedronToolBox tb;
        if (!tb.SetQuantizationBits(t.quantization_bits())) return "octahedron-bits-invalid";
        for (uint32_t p = 0; p < np; ++p) {
          const AttributeValueIndex vi = sa->mapped_index(PointIndex(p));
          float a[3], b[3], c[3];
          int32_t st[2];
          fa->GetMappedValue(PointIndex(p), a);
          target.GetValue(vi, b);
          sa->ConvertValue<int32_t>(vi, st);
          tb.QuantizedOctahedralCoordsToUnitVector(st[0], st[1], c);
          if (memcmp(a, b, 12) != 0) return "described-octahedron-transform-does-not-reproduce-decode";
          if (memcmp(a, c, 12) != 0) return "octahedral-tool-box-with-described-bits-differs";
        }
        rep.count("attribute/skipped-octahedral");
      } else {
        return "unknown-transform-type";
      }
    }
    rep.count("subsets_checked");
  }
  return "";
}

int main(int argc, char **argv) {
  return vf::RunHarness(argc, argv, "C10", [](int64_t k, Rng &r, Reporter &rep) {
    const bool thorough = rep.args().tier == "thorough";
    // Legacy testdata streams first (older bitstreams store the transform data in a different order).
    static const char *kLegacy[] = {"car.drc", "cube_att.drc", "cube_att.obj.edgebreaker.cl10.2.2.drc", "cube_att.obj.edgebreaker.cl4.2.2.drc", "cube_att.obj.sequential.cl3.2.2.drc", "cube_att_sub_o_2.drc",
                                    "cube_att_sub_o_no_metadata.drc", "cube_pc.drc", "pc_color.drc", "pc_kd_color.drc", "point_cloud_no_qp.drc", "test_nm.obj.edgebreaker.0.10.0.drc",
                                    "test_nm.obj.edgebreaker.0.9.1.drc", "test_nm.obj.edgebreaker.1.0.0.drc", "test_nm.obj.edgebreaker.1.1.0.drc", "test_nm.obj.edgebreaker.cl10.2.2.drc",
                                    "test_nm.obj.edgebreaker.cl4.2.2.drc", "test_nm.obj.sequential.0.10.0.drc", "test_nm.obj.sequential.0.9.1.drc", "test_nm.obj.sequential.1.0.0.drc",
                                    "test_nm.obj.sequential.1.1.0.drc", "test_nm.obj.sequential.cl3.2.2.drc", "test_nm_quant.0.9.0.drc", "octagon_preserved.drc", "annotation.drc"};
    const int64_t nlegacy = sizeof(kLegacy) / sizeof(kLegacy[0]);
    std::string bytes, desc, cls;
    std::set<uint32_t> quantized;  // unique ids of the float attributes the encoder was asked to quantize
    bool have_quantized = false;
    if (k < nlegacy) {
      bytes = ReadFile((vf::RepoRoot() + "/testdata/") + kLegacy[k]);
      desc = std::string("legacy ") + kLegacy[k];
      if (bytes.size() < 11) { rep.count("legacy_missing"); rep.held(0, false); return; }
    } else {
      vf::GenParams gp;
      gp.point_cloud = r.below(3) == 0;
      int s = r.below(100);
      gp.size_class = s < 10 ? 1 : s < 50 ? 2 : s < (thorough ? 90 : 97) ? 3 : 4;
      gp.float_pos = true;
      gp.allow_special_floats = false;
      gp.narrow_int32 = true;
      vf::Geo g = vf::GenGeo(r, gp);
      vf::EncOpts o = vf::GenOpts(r, g);
      // make sure at least one float attribute is quantized
      bool anyq = false;
      for (size_t a = 0; a < g.atts.size(); ++a) if (g.atts[a].dt == DT_FLOAT32 && o.qbits[a] > 0) anyq = true;
      if (!anyq) o.qbits[g.pos_att] = 4 + static_cast<int>(r.below(20));
      vf::AvoidHugeEntropyTables(g, &o);
      desc = g.family + (g.is_mesh ? " mesh" : " pc") + " np=" + std::to_string(g.npoints) + " na=" + std::to_string(g.atts.size()) + " | " + o.Describe();
      rep.note(desc);
      std::unique_ptr<Mesh> mesh;
      std::unique_ptr<PointCloud> pcu;
      const PointCloud *pc;
      if (g.is_mesh) { mesh = vf::ToMesh(g); pc = mesh.get(); } else { pcu = vf::ToPointCloud(g); pc = pcu.get(); }
      vf::EncResult er = vf::Encode(g, *pc, mesh.get(), o);
      if (!er.status.ok()) { rep.count(std::string("encoder_refused/") + er.status.error_msg()); rep.held(0, false); return; }
      bytes = er.bytes;
      for (size_t a = 0; a < g.atts.size(); ++a) if (g.atts[a].dt == DT_FLOAT32 && vf::EffectiveQBits(g, o, static_cast<int>(a)) > 0) quantized.insert(g.atts[a].unique_id);
      have_quantized = true;
    }
    rep.note(desc);
    rep.stage(0, "stream.drc", bytes.data(), bytes.size());
    std::string bad = CheckStream(bytes, r, rep, desc, &cls, have_quantized ? &quantized : nullptr);
    if (!bad.empty()) {
      rep.violation(bad.substr(0, bad.find(':')) + "/" + cls, desc + " :: " + bad, {{"stream.drc", bytes}});
      return;
    }
    if (cls.empty()) { rep.count("stream_not_decodable"); rep.held(0, false); return; }
    rep.count("config/" + cls + (k < nlegacy ? "/legacy" : ""));
    rep.held(vf::HashBytes(bytes.data(), bytes.size()), true);
    if (k < nlegacy || r.below(300) == 0) rep.sample("{\"case\":\"" + vf::JsonEscape(desc) + "\"}");
  });
}
