// C14: mesh-building and clean-up utilities never change what the mesh describes.
// Oracle: canonical form (multiset of triangles / points with per-corner value bytes and
// orientation) before vs after, minus exactly the documented removals computed independently;
// dedup post-conditions; independent strip walker for the stripifier.
#include <map>
#include <set>

#include "common/canon.h"
#include "common/geo.h"
#include "common/runner.h"
#include "draco/mesh/mesh_cleanup.h"
#include "draco/mesh/mesh_stripifier.h"
#include "draco/mesh/triangle_soup_mesh_builder.h"
#include "draco/point_cloud/point_cloud_builder.h"

using namespace draco;
using vf::Reporter;
using vf::Rng;

static std::vector<std::string> Sorted(std::vector<std::string> v) { std::sort(v.begin(), v.end()); return v; }

// Random value with bit patterns that distinguish bitwise from numeric equality.
static void RandValue(Rng &r, DataType dt, int nc, int pool, uint8_t *out) {
  const int len = DataTypeLength(dt);
  for (int c = 0; c < nc; ++c) {
    if (dt == DT_FLOAT32) {
      static const uint32_t special[] = {0x00000000u, 0x80000000u, 0x7fc00000u, 0x7fc00001u, 0xffc00000u, 0x00000001u, 0x80000001u, 0x3f800000u};
      uint32_t u;
      if (r.below(5) == 0) u = special[r.below(8)];
      else { float f = static_cast<float>(static_cast<int>(r.below(pool)) * 0.5 - 1.0); memcpy(&u, &f, 4); }
      memcpy(out + 4 * c, &u, 4);
    } else {
      int64_t v = static_cast<int64_t>(r.below(pool)) - 2;
      memcpy(out + len * c, &v, len);
    }
  }
}

struct SoupAtt { GeometryAttribute::Type type; DataType dt; int nc; bool per_face; bool normalized; uint32_t uid; std::vector<uint8_t> data; int stride() const { return nc * DataTypeLength(dt); } };

static std::string DupCheck(const PointCloud &pc) {
  // no two identical values within an attribute, no two points with identical index tuples
  for (int a = 0; a < pc.num_attributes(); ++a) {
    const PointAttribute *att = pc.attribute(a);
    if (att->num_components() > 4) continue;  // value deduplication is implemented for 1..4 components only
    std::set<std::string> seen;
    const size_t n = static_cast<size_t>(att->num_components()) * DataTypeLength(att->data_type());
    for (uint32_t i = 0; i < att->size(); ++i) {
      std::string v(reinterpret_cast<const char *>(att->GetAddress(AttributeValueIndex(i))), n);
      if (!seen.insert(v).second) return "two-identical-values-remain (att " + std::to_string(a) + ")";
    }
  }
  std::set<std::vector<uint32_t>> tuples;
  for (uint32_t p = 0; p < pc.num_points(); ++p) {
    std::vector<uint32_t> t;
    for (int a = 0; a < pc.num_attributes(); ++a) t.push_back(pc.attribute(a)->mapped_index(PointIndex(p)).value());
    if (!tuples.insert(t).second) return "two-identical-points-remain";
  }
  return "";
}

static void CaseSoupBuilder(Rng &r, Reporter &rep) {
  const int nf = static_cast<int>(r.below(5) == 0 ? r.below(3) : 1 + r.below(60));
  const int na = 1 + static_cast<int>(r.below(5));
  static const DataType dts[] = {DT_FLOAT32, DT_FLOAT32, DT_INT8, DT_UINT8, DT_INT16, DT_UINT16, DT_INT32, DT_UINT32};
  static const GeometryAttribute::Type tys[] = {GeometryAttribute::NORMAL, GeometryAttribute::COLOR, GeometryAttribute::TEX_COORD, GeometryAttribute::GENERIC};
  std::vector<SoupAtt> atts(na);
  const int pool = 2 + static_cast<int>(r.below(6));
  const bool no_position = r.below(6) == 0;  // the builder does not require a POSITION attribute
  for (int a = 0; a < na; ++a) {
    SoupAtt &s = atts[a];
    s.type = (a == 0 && !no_position) ? GeometryAttribute::POSITION : tys[r.below(4)];
    s.dt = a == 0 ? (r.below(4) == 0 ? DT_INT32 : DT_FLOAT32) : dts[r.below(8)];
    s.nc = a == 0 ? 3 : static_cast<int>(r.range(1, 4));
    s.per_face = a != 0 && r.below(4) == 0;
    s.normalized = r.below(5) == 0;
    s.uid = 100 + a * 7;
    s.data.resize(static_cast<size_t>(nf) * 3 * s.stride());
    for (int f = 0; f < nf; ++f) for (int c = 0; c < 3; ++c) {
      uint8_t *dst = &s.data[(3 * f + c) * s.stride()];
      if (s.per_face && c > 0) memcpy(dst, &s.data[3 * f * s.stride()], s.stride()); else RandValue(r, s.dt, s.nc, pool, dst);
    }
  }
  TriangleSoupMeshBuilder mb;
  mb.Start(nf);
  std::vector<int> ids;
  for (auto &s : atts) { int id = mb.AddAttribute(s.type, s.nc, s.dt, s.normalized); ids.push_back(id); }
  {
    // The builder accepts the (face, attribute) values in any order: faces shuffled, face-major or attribute-major.
    std::vector<int> forder(nf);
    for (int f = 0; f < nf; ++f) forder[f] = f;
    const int order_mode = static_cast<int>(r.below(3));
    if (order_mode != 0) for (int i = nf - 1; i > 0; --i) std::swap(forder[i], forder[r.below(i + 1)]);
    auto set_one = [&](int f, int a) {
      const SoupAtt &s = atts[a];
      const uint8_t *p = &s.data[3 * f * s.stride()];
      if (s.per_face) mb.SetPerFaceAttributeValueForFace(ids[a], FaceIndex(f), p);
      else mb.SetAttributeValuesForFace(ids[a], FaceIndex(f), p, p + s.stride(), p + 2 * s.stride());
    };
    if (order_mode == 2) { for (int a = na - 1; a >= 0; --a) for (int f : forder) set_one(f, a); }
    else { for (int f : forder) for (int a = 0; a < na; ++a) set_one(f, a); }
    rep.count(std::string("soup_value_order/") + (order_mode == 0 ? "in-order" : order_mode == 1 ? "faces-shuffled" : "attribute-major-shuffled"));
  }
  for (int a = 0; a < na; ++a) mb.SetAttributeUniqueId(ids[a], atts[a].uid);
  std::unique_ptr<Mesh> mesh = mb.Finalize();
  const std::string desc = "soup-builder faces=" + std::to_string(nf) + " atts=" + std::to_string(na) + " pool=" + std::to_string(pool);
  if (!mesh) { rep.violation("soup-builder/finalize-returned-null", desc); return; }
  std::string bad = vf::CheckStructure(*mesh, mesh.get());
  if (!bad.empty()) { rep.violation("soup-builder/invalid-structure", desc + " :: " + bad); return; }
  // expected triangles: corner records in unique-id order = attribute order here
  std::vector<std::string> want;
  for (int f = 0; f < nf; ++f) {
    std::string rec[3];
    for (int c = 0; c < 3; ++c) for (auto &s : atts) rec[c].append(reinterpret_cast<const char *>(&s.data[(3 * f + c) * s.stride()]), s.stride());
    std::string best;
    for (int s = 0; s < 3; ++s) { std::string cat = rec[s] + rec[(s + 1) % 3] + rec[(s + 2) % 3]; if (best.empty() || cat < best) best = cat; }
    want.push_back(best);
  }
  vf::Canon got = vf::MakeCanon(*mesh, mesh.get());
  for (size_t a = 0; a < atts.size(); ++a) {
    if (got.atts.size() != atts.size() || got.atts[a].uid != atts[a].uid || got.atts[a].type != atts[a].type || got.atts[a].dt != atts[a].dt || got.atts[a].nc != atts[a].nc || got.atts[a].normalized != atts[a].normalized) {
      rep.violation("soup-builder/attribute-descriptor-changed", desc); return;
    }
  }
  if (Sorted(want) != Sorted(got.tris)) { rep.violation("soup-builder/triangle-multiset-changed", desc); return; }
  if (mesh->num_faces() != static_cast<uint32_t>(nf)) { rep.violation("soup-builder/face-count-changed", desc); return; }
  bad = DupCheck(*mesh);
  if (!bad.empty()) { rep.violation("soup-builder/" + bad.substr(0, bad.find(' ')), desc + " :: " + bad); return; }
  for (uint32_t p = 0; p < mesh->num_points(); ++p) if (!got.point_used[p]) { rep.violation("soup-builder/unused-point-created", desc); return; }
  rep.count("soup_builder_meshes");
  rep.count("soup_builder_faces", nf);
  rep.held(vf::HashBytes(atts[0].data.data(), atts[0].data.size(), nf * 31 + na), nf > 0);
}

static void CasePointCloudBuilder(Rng &r, Reporter &rep) {
  const int np = static_cast<int>(r.below(6) == 0 ? 1 + r.below(2) : 1 + r.below(200));  // Start(0) leaves the attributes without a buffer (nothing to set): not driven
  const int na = 1 + static_cast<int>(r.below(4));
  const int pool = 2 + static_cast<int>(r.below(4));
  static const DataType dts[] = {DT_FLOAT32, DT_FLOAT32, DT_INT8, DT_UINT8, DT_INT16, DT_UINT16, DT_INT32, DT_UINT32};
  std::vector<SoupAtt> atts(na);
  for (int a = 0; a < na; ++a) {
    SoupAtt &s = atts[a];
    s.type = a == 0 ? GeometryAttribute::POSITION : GeometryAttribute::GENERIC;
    s.dt = a == 0 ? DT_FLOAT32 : dts[r.below(8)];
    s.nc = a == 0 ? 3 : static_cast<int>(r.range(1, 4));
    s.uid = 50 + a;
    s.data.resize(static_cast<size_t>(np) * s.stride());
    for (int p = 0; p < np; ++p) RandValue(r, s.dt, s.nc, pool, &s.data[p * s.stride()]);
  }
  std::vector<std::string> recs(np);
  for (int p = 0; p < np; ++p) for (auto &s : atts) recs[p].append(reinterpret_cast<const char *>(&s.data[p * s.stride()]), s.stride());
  for (int dedup = 0; dedup < 2; ++dedup) {
    PointCloudBuilder pb;
    pb.Start(np);
    std::vector<int> ids;
    for (auto &s : atts) ids.push_back(pb.AddAttribute(s.type, s.nc, s.dt));
    for (int a = 0; a < na; ++a) {
      const int lay = static_cast<int>(r.below(6));
      if (lay == 0) pb.SetAttributeValuesForAllPoints(ids[a], atts[a].data.data(), atts[a].stride());
      else if (lay == 1) pb.SetAttributeValuesForAllPoints(ids[a], atts[a].data.data(), 0);  // 0 = tightly packed
      else if (lay == 2) {
        // Array-of-structs input: the value sits at a random offset inside a larger record (byte stride > element size);
        // the bytes around it are filled with a pattern that is no value of the attribute.
        const size_t es = atts[a].stride(), lead = r.below(9), rec = lead + es + 1 + r.below(12);
        std::vector<uint8_t> inter(static_cast<size_t>(np) * rec + es, 0xA5);
        for (int p = 0; p < np; ++p) memcpy(&inter[p * rec + lead], &atts[a].data[p * es], es);
        pb.SetAttributeValuesForAllPoints(ids[a], inter.data() + lead, static_cast<int>(rec));
        rep.count("pc_builder_interleaved_inputs");
      }
      else if (r.below(2)) for (int p = 0; p < np; ++p) pb.SetAttributeValueForPoint(ids[a], PointIndex(p), &atts[a].data[p * atts[a].stride()]);
      else for (int p = np - 1; p >= 0; --p) pb.SetAttributeValueForPoint(ids[a], PointIndex(p), &atts[a].data[p * atts[a].stride()]);
      pb.SetAttributeUniqueId(ids[a], atts[a].uid);
    }
    std::unique_ptr<PointCloud> pc = pb.Finalize(dedup != 0);
    const std::string desc = std::string("pc-builder dedup=") + std::to_string(dedup) + " points=" + std::to_string(np) + " atts=" + std::to_string(na);
    if (!pc) { rep.violation("pc-builder/finalize-returned-null", desc); return; }
    std::string bad = vf::CheckStructure(*pc, nullptr);
    if (!bad.empty()) { rep.violation("pc-builder/invalid-structure", desc + " :: " + bad); return; }
    vf::Canon got = vf::MakeCanon(*pc, nullptr);
    if (!dedup) {
      if (got.points != recs) { rep.violation("pc-builder/points-changed-without-dedup", desc); return; }
    } else {
      std::set<std::string> a(recs.begin(), recs.end()), b(got.points.begin(), got.points.end());
      if (a != b) { rep.violation("pc-builder/point-set-changed-by-dedup", desc); return; }
      if (b.size() != got.points.size()) { rep.violation("pc-builder/duplicate-points-remain-after-dedup", desc); return; }
      bad = DupCheck(*pc);
      if (!bad.empty()) { rep.violation("pc-builder/" + bad.substr(0, bad.find(' ')), desc + " :: " + bad); return; }
    }
  }
  rep.count("pc_builder_clouds");
  rep.held(vf::HashBytes(atts[0].data.data(), atts[0].data.size(), np * 31 + na), np > 0);
}

static vf::Geo SmallGeo(Rng &r, bool mesh) {
  vf::GenParams gp;
  gp.point_cloud = !mesh;
  gp.size_class = r.below(4) == 0 ? 3 : 2;
  gp.narrow_int32 = true;
  vf::Geo g = vf::GenGeo(r, gp);
  // Force collisions: overwrite some entries with copies of others (identical values, distinct entries).
  for (auto &a : g.atts) if (a.nvals >= 2) { int k = static_cast<int>(r.below(4)); for (int i = 0; i < k; ++i) { size_t x = r.below(a.nvals), y = r.below(a.nvals); memcpy(a.val(x), a.val(y), a.stride()); } }
  return g;
}

static void CaseDedup(Rng &r, Reporter &rep) {
  const bool is_mesh = r.below(3) != 0;
  vf::Geo g = SmallGeo(r, is_mesh);
  std::unique_ptr<Mesh> mesh; std::unique_ptr<PointCloud> pcu; PointCloud *pc;
  if (g.is_mesh) { mesh = vf::ToMesh(g); pc = mesh.get(); } else { pcu = vf::ToPointCloud(g); pc = pcu.get(); }
  const std::string desc = "dedup " + g.family + (g.is_mesh ? " mesh" : " pc") + " np=" + std::to_string(g.npoints) + " nf=" + std::to_string(g.faces.size()) + " na=" + std::to_string(g.atts.size());
  const vf::Canon before = vf::MakeCanon(*pc, mesh.get());
  const int order = static_cast<int>(r.below(3));  // 0: values then ids, 1: ids then values then ids, 2: values only
  if (order == 1) pc->DeduplicatePointIds();
  if (!pc->DeduplicateAttributeValues()) { rep.violation("dedup/DeduplicateAttributeValues-failed", desc); return; }
  if (order != 2) pc->DeduplicatePointIds();
  std::string bad = vf::CheckStructure(*pc, mesh.get());
  if (!bad.empty()) { rep.violation("dedup/invalid-structure", desc + " :: " + bad); return; }
  const vf::Canon after = vf::MakeCanon(*pc, mesh.get());
  if (vf::CompareAttSets(before, after) != "") { rep.violation("dedup/attribute-descriptor-changed", desc); return; }
  if (g.is_mesh) {
    if (before.tris != after.tris) { rep.violation("dedup/triangles-changed", desc); return; }
    // unused points may be merged but never invented
    std::set<std::string> a(before.points.begin(), before.points.end());
    for (auto &p : after.points) if (!a.count(p)) { rep.violation("dedup/point-invented", desc); return; }
  } else {
    std::set<std::string> a(before.points.begin(), before.points.end()), b(after.points.begin(), after.points.end());
    if (a != b) { rep.violation("dedup/point-set-changed", desc); return; }
  }
  // no two identical values remain
  for (int a = 0; a < pc->num_attributes(); ++a) {
    const PointAttribute *att = pc->attribute(a);
    if (att->num_components() > 4) { rep.count("dedup_skipped_attribute_with_more_than_4_components"); continue; }  // dedup is implemented for 1..4 components only
    std::set<std::string> seen;
    const size_t n = static_cast<size_t>(att->num_components()) * DataTypeLength(att->data_type());
    for (uint32_t i = 0; i < att->size(); ++i) if (!seen.insert(std::string(reinterpret_cast<const char *>(att->GetAddress(AttributeValueIndex(i))), n)).second) {
      rep.violation("dedup/two-identical-values-remain/dt" + std::to_string(att->data_type()) + "-nc" + std::to_string(att->num_components()), desc + " att " + std::to_string(a) + " value " + vf::Hex(att->GetAddress(AttributeValueIndex(i)), n) + " order=" + std::to_string(order));
      return;
    }
  }
  if (order != 2) { bad = DupCheck(*pc); if (!bad.empty()) { rep.violation("dedup/" + bad.substr(0, bad.find(' ')), desc + " :: " + bad); return; } }
  // idempotence
  const auto d1 = vf::OrderedDigest(*pc, mesh.get());
  pc->DeduplicateAttributeValues();
  if (order != 2) pc->DeduplicatePointIds();
  if (vf::OrderedDigest(*pc, mesh.get()) != d1) { rep.violation("dedup/not-idempotent", desc); return; }
  rep.count("dedup_geometries");
  rep.held(vf::HashCombine(d1.first, d1.second), g.npoints > 0);
}

static void CaseCleanup(Rng &r, Reporter &rep) {
  vf::Geo g = SmallGeo(r, true);
  std::unique_ptr<Mesh> mesh = vf::ToMesh(g);
  MeshCleanupOptions opt;
  const int mask = static_cast<int>(r.below(8));
  opt.remove_degenerated_faces = mask & 1; opt.remove_duplicate_faces = mask & 2; opt.remove_unused_attributes = mask & 4;
  const std::string desc = "cleanup mask=" + std::to_string(mask) + " " + g.family + " np=" + std::to_string(g.npoints) + " nf=" + std::to_string(g.faces.size());
  const vf::Canon before = vf::MakeCanon(*mesh, mesh.get());
  // independent expectation
  const vf::Attr &pos = g.atts[g.pos_att];
  std::vector<char> keep(g.faces.size(), 1);
  if (opt.remove_degenerated_faces) for (size_t f = 0; f < g.faces.size(); ++f) { uint32_t a = pos.map(g.faces[f][0]), b = pos.map(g.faces[f][1]), c = pos.map(g.faces[f][2]); if (a == b || a == c || b == c) keep[f] = 0; }
  // exact duplicates (same point ids after rotation) must go; faces that only share position entries may go
  std::map<std::array<uint32_t, 3>, int> exact_seen;
  std::vector<char> must_remove(g.faces.size(), 0), may_remove(g.faces.size(), 0);
  if (opt.remove_duplicate_faces) {
    std::set<std::array<uint32_t, 3>> pos_seen;
    for (size_t f = 0; f < g.faces.size(); ++f) {
      if (!keep[f]) continue;
      auto rot = [](std::array<uint32_t, 3> t) { while (t[0] > t[1] || t[0] > t[2]) t = {t[1], t[2], t[0]}; return t; };
      std::array<uint32_t, 3> e = rot(g.faces[f]);
      std::array<uint32_t, 3> pp = rot({pos.map(g.faces[f][0]), pos.map(g.faces[f][1]), pos.map(g.faces[f][2])});
      if (exact_seen.count(e)) must_remove[f] = 1; else exact_seen[e] = 1;
      if (pos_seen.count(pp)) may_remove[f] = 1; else pos_seen.insert(pp);
    }
  }
  Status st = MeshCleanup::Cleanup(mesh.get(), opt);
  if (!st.ok()) { rep.violation("cleanup/failed", desc + " :: " + st.error_msg()); return; }
  std::string bad = vf::CheckStructure(*mesh, mesh.get());
  if (!bad.empty()) { rep.violation("cleanup/invalid-structure", desc + " :: " + bad); return; }
  const vf::Canon after = vf::MakeCanon(*mesh, mesh.get());
  if (vf::CompareAttSets(before, after) != "") { rep.violation("cleanup/attribute-descriptor-changed", desc); return; }
  std::map<std::string, int64_t> lo, hi, got;  // per triangle record: min and max admissible multiplicity
  for (size_t f = 0; f < g.faces.size(); ++f) {
    if (!keep[f]) continue;
    if (!must_remove[f]) { hi[before.tris[f]]++; if (!may_remove[f]) lo[before.tris[f]]++; }
  }
  for (auto &t : after.tris) got[t]++;
  for (auto &kv : got) if (kv.second > hi[kv.first]) { rep.violation("cleanup/triangle-added-or-not-removed/mask" + std::to_string(mask), desc); return; }
  for (auto &kv : lo) if (got[kv.first] < kv.second) { rep.violation("cleanup/triangle-lost/mask" + std::to_string(mask), desc); return; }
  if (opt.remove_unused_attributes) {
    for (uint32_t p = 0; p < mesh->num_points(); ++p) if (!after.point_used[p]) { rep.violation("cleanup/unused-point-remains", desc); return; }
    for (int a = 0; a < mesh->num_attributes(); ++a) {
      std::vector<char> used(mesh->attribute(a)->size(), 0);
      for (uint32_t p = 0; p < mesh->num_points(); ++p) used[mesh->attribute(a)->mapped_index(PointIndex(p)).value()] = 1;
      for (char u : used) if (!u) { rep.violation("cleanup/unused-value-remains", desc + " att " + std::to_string(a)); return; }
    }
  } else {
    if (after.points.size() != before.points.size()) { rep.violation("cleanup/points-changed-without-remove-unused", desc); return; }
  }
  rep.count("cleanup_meshes/mask" + std::to_string(mask));
  rep.held(vf::HashCombine(vf::HashBytes(g.faces.data(), g.faces.size() * 12), mask), !g.faces.empty());
}

static void CaseStrips(Rng &r, Reporter &rep) {
  vf::Geo g = SmallGeo(r, true);
  std::unique_ptr<Mesh> mesh = vf::ToMesh(g);
  const std::string desc = "strips " + g.family + " np=" + std::to_string(g.npoints) + " nf=" + std::to_string(g.faces.size());
  auto canon3 = [](std::array<uint32_t, 3> t) { while (t[0] > t[1] || t[0] > t[2]) t = {t[1], t[2], t[0]}; return t; };
  std::map<std::array<uint32_t, 3>, int64_t> want;
  for (auto &f : g.faces) if (f[0] != f[1] && f[0] != f[2] && f[1] != f[2]) want[canon3(f)]++;
  for (int mode = 0; mode < 2; ++mode) {
    std::vector<uint32_t> idx;
    MeshStripifier st;
    const uint32_t restart = 0xffffffffu;
    bool ok = mode == 0 ? st.GenerateTriangleStripsWithPrimitiveRestart(*mesh, restart, std::back_inserter(idx)) : st.GenerateTriangleStripsWithDegenerateTriangles(*mesh, std::back_inserter(idx));
    if (!ok) { if (g.faces.empty()) continue; rep.violation(std::string("strips/generation-failed/") + (mode ? "degenerate" : "restart"), desc); return; }
    // independent strip walker (GPU rule)
    std::map<std::array<uint32_t, 3>, int64_t> got;
    size_t start = 0;
    for (size_t i = 0; i <= idx.size(); ++i) {
      if (i == idx.size() || (mode == 0 && idx[i] == restart)) {
        for (size_t j = start; j + 2 < i; ++j) {
          const size_t local = j - start;
          std::array<uint32_t, 3> t = (local & 1) ? std::array<uint32_t, 3>{idx[j + 1], idx[j], idx[j + 2]} : std::array<uint32_t, 3>{idx[j], idx[j + 1], idx[j + 2]};
          if (t[0] == t[1] || t[0] == t[2] || t[1] == t[2]) continue;
          got[canon3(t)]++;
        }
        start = i + 1;
      }
    }
    for (uint32_t v : idx) if (v != restart && v >= mesh->num_points()) { rep.violation("strips/index-out-of-range", desc); return; }
    if (got != want) {
      int64_t gw = 0, ww = 0;
      for (auto &kv : got) gw += kv.second;
      for (auto &kv : want) ww += kv.second;
      rep.violation(std::string("strips/triangle-multiset-differs/") + (mode ? "degenerate" : "restart"), desc + " strip triangles=" + std::to_string(gw) + " mesh triangles=" + std::to_string(ww));
      return;
    }
    rep.count(std::string("strip_sets/") + (mode ? "degenerate-triangles" : "primitive-restart"));
    rep.count("strips_generated", st.num_strips());
  }
  rep.held(vf::HashBytes(g.faces.data(), g.faces.size() * 12, 5), !want.empty());
}

int main(int argc, char **argv) {
  return vf::RunHarness(argc, argv, "C14", [](int64_t k, Rng &r, Reporter &rep) {
    switch (k % 5) {
      case 0: CaseSoupBuilder(r, rep); break;
      case 1: CasePointCloudBuilder(r, rep); break;
      case 2: CaseDedup(r, rep); break;
      case 3: CaseCleanup(r, rep); break;
      default: CaseStrips(r, rep); break;
    }
    if (r.below(500) == 0) rep.sample("{\"case_kind\":" + std::to_string(k % 5) + ",\"k\":" + std::to_string(k) + "}");
  });
}
