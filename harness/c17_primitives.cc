// C17: bit, varint and buffer primitives round-trip every value.
// Oracle: identity + position accounting + ASan on exact-size buffers.
#include <cstdlib>
#include <limits>
#include <memory>
#include <type_traits>

#include "common/runner.h"
#include "draco/compression/bit_coders/adaptive_rans_bit_decoder.h"
#include "draco/compression/bit_coders/adaptive_rans_bit_encoder.h"
#include "draco/compression/bit_coders/direct_bit_decoder.h"
#include "draco/compression/bit_coders/direct_bit_encoder.h"
#include "draco/compression/bit_coders/folded_integer_bit_decoder.h"
#include "draco/compression/bit_coders/folded_integer_bit_encoder.h"
#include "draco/compression/bit_coders/rans_bit_decoder.h"
#include "draco/compression/bit_coders/rans_bit_encoder.h"
#include "draco/compression/bit_coders/symbol_bit_decoder.h"
#include "draco/compression/bit_coders/symbol_bit_encoder.h"
#include "draco/compression/config/compression_shared.h"
#include "draco/core/bit_utils.h"
#include "draco/core/decoder_buffer.h"
#include "draco/core/encoder_buffer.h"
#include "draco/core/varint_decoding.h"
#include "draco/core/varint_encoding.h"

using namespace draco;
using vf::Reporter;
using vf::Rng;

static const uint16_t kVersion = DRACO_BITSTREAM_VERSION(2, 2);

// Exact-size heap copy of an encoder buffer (so that ASan sees any over-read).
struct Exact {
  char *p;
  size_t n;
  explicit Exact(const EncoderBuffer &b, size_t trunc = SIZE_MAX) {
    n = b.size() < trunc ? b.size() : trunc;
    p = static_cast<char *>(malloc(n ? n : 1));
    if (n) memcpy(p, b.data(), n);
  }
  ~Exact() { free(p); }
};

template <typename T>
static T Biased(Rng &r) {
  typedef typename std::make_unsigned<T>::type U;
  const int bits = sizeof(T) * 8;
  switch (r.below(8)) {
    case 0: return std::numeric_limits<T>::max();
    case 1: return std::numeric_limits<T>::min();
    case 2: return static_cast<T>(0);
    case 3: { int k = 7 * (1 + r.below(bits / 7 + 1)); if (k >= bits) k = bits - 1;
              return static_cast<T>((static_cast<U>(1) << k) + static_cast<U>(r.range(-1, 1))); }
    case 4: { int k = r.below(bits); return static_cast<T>((static_cast<U>(1) << k) - 1); }
    case 5: return static_cast<T>(-static_cast<int64_t>(r.below(200)));
    default: { int k = 1 + r.below(bits); U m = k == bits ? ~static_cast<U>(0) : ((static_cast<U>(1) << k) - 1);
               return static_cast<T>(static_cast<U>(r.next()) & m); }
  }
}

template <typename T>
static bool VarintRt(T v, Reporter &rep, const char *tn) {
  EncoderBuffer eb;
  if (!EncodeVarint<T>(v, &eb)) { rep.violation(std::string("varint/encode-failed/") + tn, std::to_string((long long)v)); return false; }
  eb.Encode(static_cast<uint8_t>(0xA5));
  Exact ex(eb);
  DecoderBuffer db;
  db.Init(ex.p, ex.n, kVersion);
  T out = 0;
  if (!DecodeVarint<T>(&out, &db)) { rep.violation(std::string("varint/decode-failed/") + tn, std::to_string((long long)v)); return false; }
  uint8_t s = 0;
  if (out != v || !db.Decode(&s) || s != 0xA5 || db.remaining_size() != 0) {
    rep.violation(std::string("varint/mismatch/") + tn, "v=" + std::to_string((long long)v) + " out=" + std::to_string((long long)out));
    return false;
  }
  // Truncated by one byte: must fail or stay inside.
  if (ex.n >= 2) {
    Exact tr(eb, ex.n - 2);
    DecoderBuffer d2;
    d2.Init(tr.p, tr.n, kVersion);
    T o2;
    bool ok = DecodeVarint<T>(&o2, &d2);
    if (ok && d2.remaining_size() < 0) { rep.violation(std::string("varint/overread/") + tn, std::to_string((long long)v)); return false; }
  }
  return true;
}

template <typename T>
static void VarintExhaustive(Reporter &rep, const char *tn) {
  int64_t lo = std::numeric_limits<T>::min(), hi = std::numeric_limits<T>::max();
  int64_t n = 0;
  for (int64_t v = lo; v <= hi; ++v) { if (!VarintRt<T>(static_cast<T>(v), rep, tn)) return; ++n; }
  rep.count(std::string("varint_exhaustive/") + tn, n);
}

template <typename T>
static void VarintBoundary(Rng &r, Reporter &rep, const char *tn, int nrand) {
  typedef typename std::make_unsigned<T>::type U;
  int64_t n = 0;
  for (int k = 0; k < (int)sizeof(T) * 8; ++k) {
    for (int d = -2; d <= 2; ++d) {
      U u = (static_cast<U>(1) << k) + static_cast<U>(d);
      if (!VarintRt<T>(static_cast<T>(u), rep, tn)) return;
      if (!VarintRt<T>(static_cast<T>(~u), rep, tn)) return;
      n += 2;
    }
  }
  for (int i = 0; i < nrand; ++i) { if (!VarintRt<T>(Biased<T>(r), rep, tn)) return; ++n; }
  rep.count(std::string("varint_values/") + tn, n);
}

// ---- mixed byte/bit section grammar -------------------------------------------------
struct Op {
  int kind;  // 0 scalar,1 varint,2 bitseq(size),3 bitseq(nosize),4.. coders
  int type;
  uint64_t val;
  std::vector<std::pair<int, uint32_t>> bits;  // (nbits, value); nbits==0 => single bit op
};

template <typename T>
static bool ScalarEnc(EncoderBuffer &eb, uint64_t v) { T t; memcpy(&t, &v, sizeof(T)); return eb.Encode(t); }
template <typename T>
static bool ScalarDec(DecoderBuffer &db, uint64_t v) { T t, o; memcpy(&t, &v, sizeof(T)); if (!db.Decode(&o)) return false; return memcmp(&t, &o, sizeof(T)) == 0; }

// Coder objects are designed for reuse (StartEncoding / StartDecoding reset them): when g_reuse_coders is set, one
// encoder and one decoder object per coder type serve every sequence of the case (and of later cases of the worker).
static thread_local bool g_reuse_coders = false;
template <class Enc>
static void CoderEnc(EncoderBuffer &eb, const Op &op) {
  static thread_local Enc persistent;
  Enc fresh;
  Enc &e = g_reuse_coders ? persistent : fresh;
  e.StartEncoding();
  for (auto &b : op.bits) {
    if (b.first == 0) e.EncodeBit(b.second != 0); else e.EncodeLeastSignificantBits32(b.first, b.second);
  }
  e.EndEncoding(&eb);
}
template <class Dec>
static int CoderDec(DecoderBuffer &db, const Op &op, bool check) {
  static thread_local Dec persistent;
  Dec fresh;
  Dec &d = g_reuse_coders ? persistent : fresh;
  if (!d.StartDecoding(&db)) return 1;
  for (auto &b : op.bits) {
    if (b.first == 0) {
      bool bit = d.DecodeNextBit();
      if (check && bit != (b.second != 0)) return 2;
    } else {
      uint32_t v = 0;
      d.DecodeLeastSignificantBits32(b.first, &v);
      if (check && v != b.second) return 2;
    }
  }
  d.EndDecoding();
  return 0;
}

static std::vector<std::pair<int, uint32_t>> GenBits(Rng &r, int maxlen, bool allow_lsb, int max_nbits) {
  std::vector<std::pair<int, uint32_t>> v;
  int n = r.below(8) == 0 ? 0 : 1 + r.below(maxlen);
  // bias: p(1) from 2^-12 .. 1-2^-12, all zero, all one, alternating, runs
  int mode = r.below(7);
  double p1 = mode == 0 ? 0.0 : mode == 1 ? 1.0 : mode == 2 ? std::ldexp(1.0, -(int)r.range(1, 12)) : mode == 3 ? 1.0 - std::ldexp(1.0, -(int)r.range(1, 12)) : 0.5;
  bool run = false;
  for (int i = 0; i < n; ++i) {
    bool bit;
    if (mode == 5) bit = i & 1;
    else if (mode == 6) { if (r.below(64) == 0) run = !run; bit = run; }
    else bit = r.chance(p1);
    if (allow_lsb && r.below(5) == 0) {
      int nb = 1 + r.below(max_nbits);
      uint32_t val = r.u32();
      if (mode == 0) val = 0; if (mode == 1) val = 0xffffffffu;
      if (r.below(4) == 0) val = 1u << r.below(32);
      if (nb < 32) val &= (1u << nb) - 1;
      v.push_back({nb, val});
    } else {
      v.push_back({0, bit ? 1u : 0u});
    }
  }
  return v;
}

static const char *kKindNames[] = {"scalar", "varint", "bitseq_size", "bitseq_nosize", "rans_bit", "adaptive_rans_bit", "direct_bit", "folded_rans", "symbol_bit"};

static bool EncodeOp(EncoderBuffer &eb, const Op &op) {
  switch (op.kind) {
    case 0:
      switch (op.type) {
        case 0: return ScalarEnc<uint8_t>(eb, op.val); case 1: return ScalarEnc<int8_t>(eb, op.val);
        case 2: return ScalarEnc<uint16_t>(eb, op.val); case 3: return ScalarEnc<int16_t>(eb, op.val);
        case 4: return ScalarEnc<uint32_t>(eb, op.val); case 5: return ScalarEnc<int32_t>(eb, op.val);
        case 6: return ScalarEnc<uint64_t>(eb, op.val); case 7: return ScalarEnc<int64_t>(eb, op.val);
        case 8: return ScalarEnc<float>(eb, op.val); default: return ScalarEnc<double>(eb, op.val);
      }
    case 1:
      switch (op.type) {
        case 0: return EncodeVarint<uint8_t>((uint8_t)op.val, &eb); case 1: return EncodeVarint<int8_t>((int8_t)op.val, &eb);
        case 2: return EncodeVarint<uint16_t>((uint16_t)op.val, &eb); case 3: return EncodeVarint<int16_t>((int16_t)op.val, &eb);
        case 4: return EncodeVarint<uint32_t>((uint32_t)op.val, &eb); case 5: return EncodeVarint<int32_t>((int32_t)op.val, &eb);
        case 6: return EncodeVarint<uint64_t>((uint64_t)op.val, &eb); default: return EncodeVarint<int64_t>((int64_t)op.val, &eb);
      }
    case 2: case 3: {
      int64_t total = 0;
      for (auto &b : op.bits) total += b.first;
      if (total == 0) return true;  // nothing written (StartBitEncoding refuses 0 bits)
      // Contract: required_bits must cover what is written; callers over-reserve.
      if (!eb.StartBitEncoding(total + op.val % 17, op.kind == 2)) return false;
      for (auto &b : op.bits) if (!eb.EncodeLeastSignificantBits32(b.first, b.second)) return false;
      eb.EndBitEncoding();
      return true;
    }
    case 4: CoderEnc<RAnsBitEncoder>(eb, op); return true;
    case 5: CoderEnc<AdaptiveRAnsBitEncoder>(eb, op); return true;
    case 6: CoderEnc<DirectBitEncoder>(eb, op); return true;
    case 7: CoderEnc<FoldedBit32Encoder<RAnsBitEncoder>>(eb, op); return true;
    case 8: CoderEnc<SymbolBitEncoder>(eb, op); return true;
  }
  return false;
}

// returns 0 ok, 1 decode failure, 2 mismatch
static int DecodeOp(DecoderBuffer &db, const Op &op, bool check) {
  switch (op.kind) {
    case 0: {
      bool ok;
      switch (op.type) {
        case 0: ok = ScalarDec<uint8_t>(db, op.val); break; case 1: ok = ScalarDec<int8_t>(db, op.val); break;
        case 2: ok = ScalarDec<uint16_t>(db, op.val); break; case 3: ok = ScalarDec<int16_t>(db, op.val); break;
        case 4: ok = ScalarDec<uint32_t>(db, op.val); break; case 5: ok = ScalarDec<int32_t>(db, op.val); break;
        case 6: ok = ScalarDec<uint64_t>(db, op.val); break; case 7: ok = ScalarDec<int64_t>(db, op.val); break;
        case 8: ok = ScalarDec<float>(db, op.val); break; default: ok = ScalarDec<double>(db, op.val); break;
      }
      return ok ? 0 : (check ? 2 : 1);
    }
    case 1: {
#define VD(T) { T o; if (!DecodeVarint<T>(&o, &db)) return 1; if (check && o != (T)op.val) return 2; return 0; }
      switch (op.type) {
        case 0: VD(uint8_t) case 1: VD(int8_t) case 2: VD(uint16_t) case 3: VD(int16_t)
        case 4: VD(uint32_t) case 5: VD(int32_t) case 6: VD(uint64_t) default: VD(int64_t)
      }
#undef VD
    }
    case 2: case 3: {
      int64_t total = 0;
      for (auto &b : op.bits) total += b.first;
      if (total == 0) return 0;
      uint64_t sz = 0;
      int64_t before = db.remaining_size();
      if (!db.StartBitDecoding(op.kind == 2, &sz)) return 1;
      int64_t hdr = before - db.remaining_size();
      for (auto &b : op.bits) {
        uint32_t v = 0;
        if (!db.DecodeLeastSignificantBits32(b.first, &v)) return 1;
        if (check && v != b.second) return 2;
      }
      db.EndBitDecoding();
      if (check && op.kind == 2) {
        // stored size must equal the bytes the decoder consumed
        if ((int64_t)sz != (before - db.remaining_size()) - hdr) return 3;
      }
      return 0;
    }
    case 4: return CoderDec<RAnsBitDecoder>(db, op, check);
    case 5: return CoderDec<AdaptiveRAnsBitDecoder>(db, op, check);
    case 6: return CoderDec<DirectBitDecoder>(db, op, check);
    case 7: return CoderDec<FoldedBit32Decoder<RAnsBitDecoder>>(db, op, check);
    case 8: return CoderDec<SymbolBitDecoder>(db, op, check);
  }
  return 1;
}

static void MixedCase(Rng &r, Reporter &rep, bool thorough) {
  int nops = 1 + r.below(thorough ? 24 : 12);
  std::vector<Op> ops;
  std::string shape;
  for (int i = 0; i < nops; ++i) {
    Op op;
    op.kind = r.below(9);
    op.type = 0;
    op.val = 0;
    if (op.kind == 0) { op.type = r.below(10); op.val = Biased<uint64_t>(r); if (op.type >= 8 && r.below(3) == 0) op.val = 0x7ff8000000000001ull >> (op.type == 8 ? 32 : 0); }
    else if (op.kind == 1) { op.type = r.below(8); op.val = Biased<uint64_t>(r); if (r.below(3) == 0) op.val >>= r.below(64); }
    else if (op.kind <= 3) {
      op.val = r.next();
      int n = r.below(8) == 0 ? 0 : 1 + r.below(thorough ? 4096 : 600);
      for (int j = 0; j < n; ++j) { int nb = 1 + r.below(32); uint32_t v = r.u32(); if (r.below(4) == 0) v = r.below(2) ? 0 : ~0u; if (nb < 32) v &= (1u << nb) - 1; op.bits.push_back({nb, v}); }
    } else {
      int maxlen = thorough ? 4096 : 700;
      if (op.kind == 8) maxlen = 300;
      op.bits = GenBits(r, maxlen, /*allow_lsb=*/true, 32);
      if (op.kind == 8 && r.below(20) != 0) {
        // Values with bit 31 set are a separate, rarely drawn class (see key suffix below).
        for (auto &b : op.bits) b.second &= 0x7fffffffu;
      }
    }
    ops.push_back(op);
    shape += std::to_string(op.kind);
    rep.count(std::string("ops/") + kKindNames[op.kind]);
  }
  EncoderBuffer eb;
  for (auto &op : ops) {
    if (!EncodeOp(eb, op)) { rep.violation(std::string("mixed/encode-failed/") + kKindNames[op.kind], shape); return; }
  }
  eb.Encode(static_cast<uint8_t>(0x5A));  // sentinel
  Exact ex(eb);
  rep.stage(0, "buffer.bin", ex.p, ex.n);
  DecoderBuffer db;
  db.Init(ex.p, ex.n, kVersion);
  for (size_t i = 0; i < ops.size(); ++i) {
    int rc = DecodeOp(db, ops[i], true);
    if (rc) {
      bool top = false;
      if (ops[i].kind == 8) for (auto &b : ops[i].bits) top |= (b.second >> 31) != 0;
      rep.violation(std::string("mixed/") + (rc == 1 ? "decode-failed/" : rc == 2 ? "mismatch/" : "stored-size/") + kKindNames[ops[i].kind] + (top ? "/value>=2^31" : ""),
                    "shape=" + shape + " op_index=" + std::to_string(i), {{"buffer.bin", std::string(ex.p, ex.n)}});
      return;
    }
  }
  uint8_t s = 0;
  if (!db.Decode(&s) || s != 0x5A || db.remaining_size() != 0) {
    rep.violation("mixed/position-after-records", "shape=" + shape + " remaining=" + std::to_string(db.remaining_size()), {{"buffer.bin", std::string(ex.p, ex.n)}});
    return;
  }
  // Reading past the written data: further reads must fail or yield zeros (and ASan must stay quiet).
  {
    uint64_t x = 0x1111;
    if (db.Decode(&x)) { rep.violation("past-end/scalar-succeeded", shape); return; }
    uint32_t v32;
    if (DecodeVarint<uint32_t>(&v32, &db)) { rep.violation("past-end/varint-succeeded", shape); return; }
    uint64_t sz;
    if (db.StartBitDecoding(false, &sz)) {
      uint32_t v = 0xffff;
      for (int i = 0; i < 40; ++i) {
        if (db.DecodeLeastSignificantBits32(1 + r.below(32), &v) && v != 0) { rep.violation("past-end/bits-nonzero", shape); return; }
      }
      db.EndBitDecoding();
    }
    rep.count("past_end_probes");
  }
  // Truncated buffers: every op either fails or returns; never touches memory outside.
  for (int t = 0; t < 3; ++t) {
    size_t cut = r.below(ex.n);
    Exact tr(eb, cut);
    rep.stage(1, "truncated.bin", tr.p, tr.n);
    DecoderBuffer d2;
    d2.Init(tr.p, tr.n, kVersion);
    // SymbolBitDecoder is excluded: it sizes its table from an unchecked count and
    // documents (DCHECK) that the caller must not read more than was written; no
    // decode entry point uses it.
    for (auto &op : ops) { if (op.kind == 8) break; if (DecodeOp(d2, op, false) == 1) break; }
    rep.count("truncated_decodes");
  }
  // Decoding MORE items than were encoded from a coder block.
  {
    Op op; op.kind = 4 + r.below(4); op.type = 0; op.val = 0;
    op.bits = GenBits(r, 200, true, 32);
    EncoderBuffer e2;
    EncodeOp(e2, op);
    Exact x2(e2);
    rep.stage(1, "coder_block.bin", x2.p, x2.n);
    DecoderBuffer d2;
    d2.Init(x2.p, x2.n, kVersion);
    Op more = op;
    auto extra = GenBits(r, 300, true, 32);
    more.bits.insert(more.bits.end(), extra.begin(), extra.end());
    DecodeOp(d2, more, false);
    rep.count("overdecode_probes");
  }
  rep.held(vf::HashBytes(ex.p, ex.n), ops.size() >= 1 && ex.n > 1);
  if (r.below(400) == 0) rep.sample("{\"shape\":\"" + shape + "\",\"bytes\":" + std::to_string(ex.n) + "}");
}

int main(int argc, char **argv) {
  return vf::RunHarness(argc, argv, "C17", [](int64_t k, Rng &r, Reporter &rep) {
    bool thorough = rep.args().tier == "thorough";
    g_reuse_coders = (k % 2) == 1;
    rep.count(g_reuse_coders ? "coder_objects/reused" : "coder_objects/fresh");
    if (k == 0) { VarintExhaustive<uint8_t>(rep, "u8"); VarintExhaustive<int8_t>(rep, "i8"); rep.held(0xC17000, true); return; }
    if (k == 1) { VarintExhaustive<uint16_t>(rep, "u16"); rep.held(0xC17001, true); return; }
    if (k == 2) { VarintExhaustive<int16_t>(rep, "i16"); rep.held(0xC17002, true); return; }
    if (k < 16) {
      int n = thorough ? 200000 : 20000;
      switch (k % 4) {
        case 0: VarintBoundary<uint32_t>(r, rep, "u32", n); break;
        case 1: VarintBoundary<int32_t>(r, rep, "i32", n); break;
        case 2: VarintBoundary<uint64_t>(r, rep, "u64", n); break;
        default: VarintBoundary<int64_t>(r, rep, "i64", n); break;
      }
      rep.held(0xC17100 + k + rep.args().seed * 1000, true);
      return;
    }
    MixedCase(r, rep, thorough);
  });
}
