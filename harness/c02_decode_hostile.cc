// C02 (decoding arbitrary bytes is memory-safe, UB-free, returns a Status), C03 (a successfully
// decoded geometry is structurally valid) and C18 (decoder memory bounded by stream length and
// declared counts). One execution engine, --prop selects the reporting oracle.
//
// Inputs: systematic corruption of base streams (every truncation, every single-site byte / u32 /
// varint pattern), header rewrites, splices, random multi-site corruption, and *semantic* tamper
// streams produced by re-encoding small geometries with one primitive value replaced through the
// DRACO_VERIF tamper hook (well formed at the byte/entropy level, semantically impossible).
// Monitors: ASan+UBSan (asan variant), guard pages + read-only input + hash (plain variant),
// allocation monitor with caps, declared-count events, CPU watchdog (runner), structural validator.
#include <dirent.h>
#include <sys/mman.h>

#include <algorithm>
#include <fstream>

#include "common/alloc_monitor.h"
#include "draco/compression/point_cloud/algorithms/dynamic_integer_points_kd_tree_encoder.h"
#include "draco/compression/point_cloud/algorithms/float_points_tree_encoder.h"
#include "common/canon.h"
#include "common/codec.h"
#include "common/geo.h"
#include "common/runner.h"
#include "common/trace.h"
#include "draco/animation/keyframe_animation.h"
#include "draco/animation/keyframe_animation_decoder.h"
#include "draco/animation/keyframe_animation_encoder.h"
#include "draco/compression/entropy/symbol_decoding.h"
#include "draco/compression/entropy/symbol_encoding.h"
#include "draco/metadata/metadata_decoder.h"
#include "draco/metadata/metadata_encoder.h"

using namespace draco;
using vf::Reporter;
using vf::Rng;

enum BaseKind { kGeometry = 0, kKeyframes = 1, kMetadata = 2, kSymbols = 3 };
struct Base { std::string name; std::string bytes; int kind; uint32_t aux; };

static std::string ReadFile(const std::string &p) {
  std::ifstream f(p, std::ios::binary);
  return std::string((std::istreambuf_iterator<char>(f)), std::istreambuf_iterator<char>());
}
static std::vector<std::string> ListDrc(const std::string &dir) {
  std::vector<std::string> v;
  DIR *d = opendir(dir.c_str());
  if (!d) return v;
  while (dirent *e = readdir(d)) { std::string n = e->d_name; if (n.size() > 4 && n.substr(n.size() - 4) == ".drc") v.push_back(n); }
  closedir(d);
  std::sort(v.begin(), v.end());
  return v;
}

// ---- guarded input buffer -------------------------------------------------------------
struct Guarded {
  char *map = nullptr;
  size_t map_len = 0;
  char *data = nullptr;
  size_t size = 0;
  bool use_mmap;
  Guarded(const std::string &b, bool at_end, bool mmap_mode) : size(b.size()), use_mmap(mmap_mode) {
    if (!use_mmap) {  // ASan: exact-size heap block (red zones on both sides)
      data = static_cast<char *>(malloc(size ? size : 1));
      memcpy(data, b.data(), size);
      return;
    }
    const size_t page = 4096, body = (size + page - 1) / page * page + page;
    map_len = body + 2 * page;
    map = static_cast<char *>(mmap(nullptr, map_len, PROT_READ | PROT_WRITE, MAP_PRIVATE | MAP_ANONYMOUS, -1, 0));
    mprotect(map, page, PROT_NONE);
    mprotect(map + map_len - page, page, PROT_NONE);
    data = at_end ? map + map_len - page - size : map + page;
    memcpy(data, b.data(), size);
    mprotect(map + page, map_len - 2 * page, PROT_READ);  // caller's bytes are read-only during the call
  }
  ~Guarded() { if (use_mmap) munmap(map, map_len); else free(data); }
};

// ---- corruption engine ------------------------------------------------------------------
static const uint8_t kBytePat[8] = {0, 0, 0x00, 0xFF, 0, 0, 0x7F, 0x80};  // 0:bit0 flip 1:bit7 flip 4:+1 5:-1
static std::string MutByte(const std::string &b, size_t off, int pat) {
  std::string m = b;
  uint8_t v = static_cast<uint8_t>(m[off]);
  switch (pat) { case 0: v ^= 1; break; case 1: v ^= 0x80; break; case 4: v += 1; break; case 5: v -= 1; break; default: v = kBytePat[pat]; }
  m[off] = static_cast<char>(v);
  return m;
}
static const uint32_t kU32Pat[6] = {0u, 1u, 0x7FFFFFFFu, 0x80000000u, 0xFFFFFFFFu, 0xFFFFFF00u};
static std::string MutU32(const std::string &b, size_t off, int pat) {
  std::string m = b;
  uint32_t v = kU32Pat[pat];
  for (int i = 0; i < 4 && off + i < m.size(); ++i) m[off + i] = static_cast<char>((v >> (8 * i)) & 0xff);
  return m;
}
// Values v for which v * m wraps (unsigned 32-bit) or turns negative (signed 32-bit) for the small
// multipliers m a decoder applies to a declared count (3 corners, 5 descriptor bytes, 4/8/12-byte elements):
// a guard computed in 32 bits lets exactly these through. Written both as a little-endian uint32 and as a
// 5-byte varint replacing the varint at the offset.
static const uint32_t kWrapMagic[8] = {0x33333334u, 0x55555556u, 0x2AAAAAABu, 0x1999999Au, 0x40000000u, 0x20000000u, 0x15555556u, 0x66666667u};
static std::string VarintBytes(uint32_t v) { std::string s; while (v >= 0x80) { s.push_back(static_cast<char>((v & 0x7f) | 0x80)); v >>= 7; } s.push_back(static_cast<char>(v)); return s; }
static std::string MutMagic(const std::string &b, size_t off, int pat) {
  const uint32_t v = kWrapMagic[pat % 8];
  if (pat < 8) { std::string m = b; for (int i = 0; i < 4 && off + i < m.size(); ++i) m[off + i] = static_cast<char>((v >> (8 * i)) & 0xff); return m; }
  size_t end = off;
  while (end < b.size() && (static_cast<uint8_t>(b[end]) & 0x80) && end - off < 10) ++end;
  if (end < b.size()) ++end;
  return b.substr(0, off) + VarintBytes(v) + b.substr(end);
}
static std::string MutVarint(const std::string &b, size_t off, int pat) {
  static const std::string pats[4] = {std::string("\xff\xff\xff\xff\x0f", 5), std::string("\xff\xff\xff\xff\xff\xff\xff\xff\xff\x01", 10),
                                      std::string("\xff\xff\xff\xff\xff\xff\xff\xff\xff\xff\x01", 11), std::string("\x80\x00", 2)};
  // replace the varint starting at off (bytes with the continuation bit + one) by the pattern
  size_t end = off;
  while (end < b.size() && (static_cast<uint8_t>(b[end]) & 0x80) && end - off < 10) ++end;
  if (end < b.size()) ++end;
  return b.substr(0, off) + pats[pat] + b.substr(end);
}

// ---- semantic tamper ----------------------------------------------------------------------
struct TamperCtx { int site; int64_t target; int64_t seen; int64_t replacement; bool relative; std::vector<int64_t> counts; };
static int64_t TamperFn(void *ctx, int site, int64_t value) {
  TamperCtx *t = static_cast<TamperCtx *>(ctx);
  if (site >= 0 && site < static_cast<int>(t->counts.size())) ++t->counts[site];
  if (site != t->site) return value;
  if (t->seen++ == t->target) return t->relative ? value + t->replacement : t->replacement;
  return value;
}

// ---- decode under the monitors ---------------------------------------------------------------
struct Outcome {
  bool ok = false;
  std::string status;
  bool bad_alloc = false, other_exception = false;
  std::string exception;
  int64_t refused_request = 0, max_request = 0, peak = 0, declared_max = 0, declared_sum = 0;
  std::string where;
  std::string c03;
  bool input_changed = false;
  uint32_t np = 0, nf = 0;
};

static void RunDecode(const Base &base, const std::string &bytes, int entry, uint32_t skip_mask, bool at_end, bool validate, Outcome *out) {
#if defined(__SANITIZE_ADDRESS__)
  const bool mmap_mode = false;
#else
  const bool mmap_mode = true;
#endif
  Guarded in(bytes, at_end, mmap_mode);
  const uint64_t h0 = vf::HashBytes(in.data, in.size);
  vf::Trace trace;
  vf::AllocBegin();
  try {
    DecoderBuffer db;
    db.Init(in.data, in.size);
    if (base.kind == kKeyframes) {
      KeyframeAnimation anim;
      KeyframeAnimationDecoder dec;
      DecoderOptions opt;
      Status st = dec.Decode(opt, &db, &anim);
      out->ok = st.ok();
      out->status = st.ok() ? "OK" : st.error_msg();
      if (st.ok() && validate) { out->c03 = vf::CheckStructure(anim, nullptr); if (out->c03.empty()) vf::ReadEverything(anim, nullptr); out->np = anim.num_points(); }
    } else if (base.kind == kMetadata) {
      GeometryMetadata gm;
      MetadataDecoder md;
      out->ok = md.DecodeGeometryMetadata(&db, &gm);
      out->status = out->ok ? "OK" : "metadata decode failed";
    } else if (base.kind == kSymbols) {
      db.Init(in.data, in.size, DRACO_BITSTREAM_VERSION(2, 2));
      uint32_t n = base.aux & 0xffff, comps = base.aux >> 16;
      std::vector<uint32_t> vals(n);
      out->ok = DecodeSymbols(n, comps, &db, vals.data());
      out->status = out->ok ? "OK" : "symbols decode failed";
    } else {
      Decoder dec;
      static const GeometryAttribute::Type kTypes[5] = {GeometryAttribute::POSITION, GeometryAttribute::NORMAL, GeometryAttribute::COLOR, GeometryAttribute::TEX_COORD, GeometryAttribute::GENERIC};
      for (int i = 0; i < 5; ++i) if (skip_mask & (1u << i)) dec.SetSkipAttributeTransform(kTypes[i]);
      std::unique_ptr<PointCloud> pc;
      Mesh *mesh = nullptr;
      Status st;
      switch (entry) {
        case 0: {  // type-directed
          auto type = Decoder::GetEncodedGeometryType(&db);
          if (!type.ok()) { st = type.status(); break; }
          if (type.value() == TRIANGULAR_MESH) { auto m = dec.DecodeMeshFromBuffer(&db); st = m.status(); if (m.ok()) { std::unique_ptr<Mesh> mm = std::move(m).value(); mesh = mm.get(); pc = std::move(mm); } }
          else { auto p = dec.DecodePointCloudFromBuffer(&db); st = p.status(); if (p.ok()) pc = std::move(p).value(); }
          break;
        }
        case 1: { auto m = dec.DecodeMeshFromBuffer(&db); st = m.status(); if (m.ok()) { std::unique_ptr<Mesh> mm = std::move(m).value(); mesh = mm.get(); pc = std::move(mm); } break; }
        case 2: { auto p = dec.DecodePointCloudFromBuffer(&db); st = p.status(); if (p.ok()) { pc = std::move(p).value(); mesh = dynamic_cast<Mesh *>(pc.get()); } break; }
        case 3: { std::unique_ptr<Mesh> mm(new Mesh()); st = dec.DecodeBufferToGeometry(&db, mm.get()); if (st.ok()) { mesh = mm.get(); pc = std::move(mm); } break; }
        default: { std::unique_ptr<PointCloud> pp(new PointCloud()); st = dec.DecodeBufferToGeometry(&db, pp.get()); if (st.ok()) pc = std::move(pp); break; }
      }
      out->ok = st.ok();
      out->status = st.ok() ? "OK" : st.error_msg();
      if (st.ok() && validate && pc) {
        out->np = pc->num_points(); out->nf = mesh ? mesh->num_faces() : 0;
        out->c03 = vf::CheckStructure(*pc, mesh);
        if (out->c03.empty()) vf::ReadEverything(*pc, mesh);
      }
    }
  } catch (const std::bad_alloc &) {
    out->bad_alloc = true; out->exception = "std::bad_alloc";
  } catch (const std::length_error &e) {
    out->bad_alloc = true; out->exception = std::string("std::length_error:") + e.what();
  } catch (const std::exception &e) {
    out->other_exception = true; out->exception = std::string(typeid(e).name()) + ":" + e.what();
  }
  vf::AllocState &as = vf::alloc_state();
  out->refused_request = as.refused_request; out->max_request = as.max_request; out->peak = std::max<int64_t>(as.peak, 0); out->where = as.where;
  vf::AllocEnd();
  // declared counts
  int64_t last_points = 0;
  for (auto &e : trace.evs) {
    if (e.kind >= 1 && e.kind <= 5) { out->declared_max = std::max(out->declared_max, e.a); out->declared_sum += std::max<int64_t>(e.a, 0); if (e.kind == draco::verif::EV_DECL_NUM_POINTS) last_points = std::max<int64_t>(e.a, 0); }
    if (e.kind == draco::verif::EV_DECL_NUM_COMPONENTS) out->declared_sum += last_points * std::max<int64_t>(e.a, 0);
  }
  out->input_changed = vf::HashBytes(in.data, in.size) != h0;
}

// C18 bound: B = C0 + K_in*len + K_el*E
static const int64_t kC0 = 64ll << 20, kKin = 2048, kKel = 256;  // calibrated: largest peak seen on corrupted 190..500-byte streams is 18 MB (fixed-size rANS tables)

static std::vector<Base> g_bases;
struct Segment { int base; int kind; int64_t count; int64_t start; };  // kind: 0 trunc 1 byte 2 u32 3 varint 4 wrap-magic (tiny bases only) 5 thinned plan for longer legacy streams (quick)
static std::vector<Segment> g_plan;
static int64_t g_plan_total = 0;

static void BuildBases(const vf::Args &a) {
  const bool thorough = a.tier == "thorough";
  const size_t max_len = static_cast<size_t>(a.GetInt("max-base-bytes", thorough ? 3000 : 420));
  const int max_frozen = static_cast<int>(a.GetInt("max-frozen-bases", thorough ? 700 : 60));
  const int64_t magic_len = a.GetInt("magic-max-bytes", thorough ? 600 : 200);
  for (auto &n : ListDrc(vf::RepoRoot() + "/testdata")) { std::string b = ReadFile(vf::RepoRoot() + "/testdata/" + n); if (b.size() >= 11) g_bases.push_back({"testdata/" + n, b, kGeometry, 0}); }
  int nf = 0;
  for (auto &n : ListDrc(vf::VerifRoot() + "/corpus/frozen")) { if (nf >= max_frozen) break; std::string b = ReadFile(vf::VerifRoot() + "/corpus/frozen/" + n); if (b.size() >= 11 && (thorough || b.size() <= 900)) { g_bases.push_back({"frozen/" + n, b, kGeometry, 0}); ++nf; } }
  // Hand-made valid streams for known numeric corner cases (written once with the plain build: --emit-special).
  for (auto &n : ListDrc(vf::VerifRoot() + "/corpus/special")) { std::string b = ReadFile(vf::VerifRoot() + "/corpus/special/" + n); if (b.size() >= 11) g_bases.push_back({"special/" + n, b, kGeometry, 0}); }
  // keyframe animation streams, metadata blobs and symbol blocks (generated deterministically)
  Rng r(777, 1, 2);
  for (int i = 0; i < 4; ++i) {
    KeyframeAnimation anim;
    int n = 3 + i * 7;
    std::vector<float> ts(n), d(n * 3);
    for (int j = 0; j < n; ++j) ts[j] = 0.1f * j;
    for (auto &x : d) x = static_cast<float>(r.uniform(-1, 1));
    anim.SetTimestamps(ts);
    int id = anim.AddKeyframes<float>(DT_FLOAT32, 3, d);
    std::vector<int32_t> di(n * 2);
    for (auto &x : di) x = static_cast<int32_t>(r.below(100));
    anim.AddKeyframes<int32_t>(DT_INT32, 2, di);
    EncoderOptions opt = EncoderOptions::CreateDefaultOptions();
    if (i & 1) opt.SetAttributeInt(id, "quantization_bits", 10);
    EncoderBuffer eb;
    KeyframeAnimationEncoder enc;
    if (enc.EncodeKeyframeAnimation(anim, opt, &eb).ok()) g_bases.push_back({"keyframes/" + std::to_string(i), std::string(eb.data(), eb.size()), kKeyframes, 0});
  }
  for (int i = 0; i < 3; ++i) {
    GeometryMetadata gm;
    gm.AddEntryString("name", "abc");
    gm.AddEntryInt("i", i);
    for (int s = 0; s <= i; ++s) { std::unique_ptr<Metadata> sub(new Metadata()); sub->AddEntryDouble("d", s); std::unique_ptr<Metadata> sub2(new Metadata()); sub2->AddEntryBinary("b", {1, 2, 3}); sub->AddSubMetadata("inner", std::move(sub2)); gm.AddSubMetadata("s" + std::to_string(s), std::move(sub)); }
    std::unique_ptr<AttributeMetadata> am(new AttributeMetadata()); am->set_att_unique_id(7); am->AddEntryString("k", "v"); gm.AddAttributeMetadata(std::move(am));
    EncoderBuffer eb; MetadataEncoder me;
    if (me.EncodeGeometryMetadata(&eb, &gm)) g_bases.push_back({"metadata/" + std::to_string(i), std::string(eb.data(), eb.size()), kMetadata, 0});
  }
  for (int i = 0; i < 6; ++i) {
    uint32_t n = 12 + 20 * i, comps = 1 + i % 3;
    n -= n % comps;
    std::vector<uint32_t> sym(n);
    for (auto &x : sym) x = i < 3 ? r.below(8) : (r.below(10) == 0 ? r.below(1u << 22) : r.below(40));
    Options opt;
    if (i % 2) SetSymbolEncodingMethod(&opt, i < 3 ? SYMBOL_CODING_RAW : SYMBOL_CODING_TAGGED);
    EncoderBuffer eb;
    if (EncodeSymbols(sym.data(), n, comps, &opt, &eb)) g_bases.push_back({"symbols/" + std::to_string(i), std::string(eb.data(), eb.size()), kSymbols, n | (comps << 16)});
  }
  // Hostile-by-construction inputs (well-formed, nothing corrupted): sub-metadata nested 100000 deep, as a bare
  // metadata blob and behind the header of a mesh stream. The decoder must refuse (its nesting limit is 1000)
  // instead of building a structure whose destruction recurses that deep.
  {
    std::string deep;
    deep.push_back(0);                       // number of attribute metadata
    for (int i = 0; i < 100000; ++i) { deep.push_back(0); deep.push_back(1); deep.push_back(1); deep.push_back('a'); }  // entries=0, subs=1, name "a"
    deep.push_back(0); deep.push_back(0);    // innermost: no entries, no sub-metadata
    g_bases.push_back({"metadata/deep-nesting", deep, kMetadata, 0});
    std::string hdr("DRACO", 5);
    hdr.push_back(2); hdr.push_back(2); hdr.push_back(1); hdr.push_back(0); hdr.push_back(0); hdr.push_back(static_cast<char>(0x80));  // v2.2 mesh sequential, flags = metadata
    g_bases.push_back({"hostile/deep-nesting-mesh", hdr + deep, kGeometry, 0});
  }
  // Systematic plan over the short bases.
  for (size_t b = 0; b < g_bases.size(); ++b) {
    const int64_t L = static_cast<int64_t>(g_bases[b].bytes.size());
    if (static_cast<size_t>(L) > max_len && g_bases[b].name.rfind("special/", 0) != 0) {
      // Quick tier: the longer streams of older bitstream versions (the only inputs that reach the backwards
      // compatibility branches) get a thinned plan: every 4th truncation, two byte patterns and one uint32
      // pattern per offset.
      const uint8_t maj = static_cast<uint8_t>(g_bases[b].bytes[5]), mnr = static_cast<uint8_t>(g_bases[b].bytes[6]);
      if (!thorough && g_bases[b].kind == kGeometry && L <= 3000 && (maj < 2 || (maj == 2 && mnr < 2))) { const int64_t n = (L / 4 + 1) + 3 * L; g_plan.push_back({static_cast<int>(b), 5, n, g_plan_total}); g_plan_total += n; }
      else { g_plan.push_back({static_cast<int>(b), 6, 1, g_plan_total}); g_plan_total += 1; }  // at least once as it is
      continue;
    }
    const int64_t counts[4] = {L + 1, 8 * L, 6 * L, 4 * L};  // truncation length L = the unmodified stream
    for (int kd = 0; kd < 4; ++kd) { g_plan.push_back({static_cast<int>(b), kd, counts[kd], g_plan_total}); g_plan_total += counts[kd]; }
    if (L <= magic_len) { g_plan.push_back({static_cast<int>(b), 4, 16 * L, g_plan_total}); g_plan_total += 16 * L; }
  }
}

// Small geometries for the semantic tamper (index -> deterministic geometry + options).
struct TamperBase { vf::Geo g; vf::EncOpts o; std::unique_ptr<Mesh> mesh; std::unique_ptr<PointCloud> pcu; const PointCloud *pc; std::vector<int64_t> counts; std::string valid; };
static std::vector<std::unique_ptr<TamperBase>> g_tamper;
static void BuildTamperBases(const vf::Args &a) {
  const int n = static_cast<int>(a.GetInt("tamper-bases", a.tier == "thorough" ? 120 : 24));
  for (int i = 0; static_cast<int>(g_tamper.size()) < n && i < 40 * n; ++i) {
    Rng r(4242, 7, i);
    std::unique_ptr<TamperBase> t(new TamperBase());
    vf::GenParams gp;
    gp.point_cloud = i % 5 == 4;
    gp.size_class = 2;
    gp.max_extra_atts = 2;
    gp.narrow_int32 = true;
    gp.allow_special_floats = false;
    t->g = vf::GenGeo(r, gp);
    t->o = vf::GenOpts(r, t->g);
    if (t->g.is_mesh && i % 2 == 0) { t->o.method = 1; t->o.eb_method = (i % 4 == 0) ? 0 : 2; }
    vf::AvoidHugeEntropyTables(t->g, &t->o);
    if (t->g.is_mesh) { t->mesh = vf::ToMesh(t->g); t->pc = t->mesh.get(); } else { t->pcu = vf::ToPointCloud(t->g); t->pc = t->pcu.get(); }
    TamperCtx ctx{-1, -1, 0, 0, false, std::vector<int64_t>(16, 0)};
    auto &h = draco::verif::hooks();
    h.tamper = TamperFn; h.ctx = &ctx;
    vf::EncResult er = vf::Encode(t->g, *t->pc, t->mesh.get(), t->o);
    h.tamper = nullptr; h.ctx = nullptr;
    if (!er.status.ok() || er.bytes.size() > 1500) continue;
    t->counts = ctx.counts;
    t->valid = er.bytes;
    g_tamper.push_back(std::move(t));
  }
}

static int EmitSpecial(const std::string &dir) {
  mkdir(dir.c_str(), 0777);
  // Mesh with 30-bit texture coordinates and 21-bit positions, coded with the tex-coord portable predictor.
  for (int variant = 0; variant < 2; ++variant) {
    Rng r(99, 5, variant);
    vf::Topo t;
    vf::GridPatch(t, 5, 5, false, false);
    vf::GenParams gp;
    gp.allow_unused = false;
    std::vector<vf::AttrPlan> plans = {{GeometryAttribute::POSITION, DT_FLOAT32, 3, false, 0, 0, 0}, {GeometryAttribute::TEX_COORD, DT_FLOAT32, 2, false, 1, 0.0, 1}};
    vf::Geo g = vf::BuildGeo(r, t, plans, gp);
    vf::EncOpts o;
    o.expert = true; o.method = 1; o.enc_speed = 0; o.dec_speed = 0;
    o.qbits = {variant ? 21 : 16, variant ? 21 : 30};
    o.pred = {-100, MESH_PREDICTION_TEX_COORDS_PORTABLE};
    std::unique_ptr<Mesh> mesh = vf::ToMesh(g);
    vf::EncResult er = vf::Encode(g, *mesh, mesh.get(), o);
    if (!er.status.ok()) { fprintf(stderr, "special %d: %s\n", variant, er.status.error_msg()); return 1; }
    std::ofstream f(dir + "/texcoord_" + (variant ? "pos21_uv21" : "pos16_uv30") + ".drc", std::ios::binary);
    f.write(er.bytes.data(), er.bytes.size());
  }
  // Legacy kd-tree point cloud (bitstream 2.2, attribute method kKdTreeQuantizationEncoding): the only way into
  // FloatPointsTreeDecoder. No current encoder writes this layout; the header is assembled by hand around a payload
  // produced by the library's own FloatPointsTreeEncoder (20 points so that the stream stays in the systematic plan).
  for (int level = 0; level <= 6; level += 3) {
    std::vector<Point3f> pts;
    Rng r(99, 7, level);
    for (int i = 0; i < 20; ++i) pts.push_back(Point3f(static_cast<float>(r.uniform(-1, 1)), static_cast<float>(r.uniform(-1, 1)), static_cast<float>(r.uniform(-1, 1))));
    FloatPointsTreeEncoder fe(KDTREE, 11, level);
    if (!fe.EncodePointCloud(pts.begin(), pts.end())) { fprintf(stderr, "special legacy kd-tree: payload encoder failed\n"); return 1; }
    std::string s("DRACO", 5);
    auto put8 = [&](uint8_t v) { s.push_back(static_cast<char>(v)); };
    auto put32 = [&](uint32_t v) { for (int i = 0; i < 4; ++i) s.push_back(static_cast<char>((v >> (8 * i)) & 0xff)); };
    put8(2); put8(2); put8(POINT_CLOUD); put8(POINT_CLOUD_KD_TREE_ENCODING); put8(0); put8(0);
    put32(20);                    // number of points
    put8(1);                      // one attributes decoder
    put8(1);                      // one attribute
    put8(GeometryAttribute::POSITION); put8(DT_FLOAT32); put8(3); put8(0); put8(0);
    put8(0 /* kKdTreeQuantizationEncoding */); put8(static_cast<uint8_t>(level)); put32(20);
    s.append(fe.buffer()->data(), fe.buffer()->size());
    vf::DecResult dr = vf::Decode(s.data(), s.size());
    if (!dr.status.ok() || dr.pc->num_points() != 20) { fprintf(stderr, "special legacy kd-tree level %d does not decode: %s\n", level, dr.status.error_msg()); return 1; }
    std::ofstream f(dir + "/legacy_kdtree_float_points_l" + std::to_string(level) + ".drc", std::ios::binary);
    f.write(s.data(), s.size());
    printf("legacy kd-tree float points level %d: %zu bytes\n", level, s.size());
  }
  // The same for the legacy *integer* kd-tree layout (attribute method kKdTreeIntegerEncoding, bitstream 2.2): uint32
  // positions, payload from DynamicIntegerPointsKdTreeEncoder.
  for (int level = 0; level <= 6; level += 6) {
    std::vector<std::array<uint32_t, 3>> pts;
    Rng r(99, 8, level);
    for (int i = 0; i < 20; ++i) pts.push_back({static_cast<uint32_t>(r.below(1000)), static_cast<uint32_t>(r.below(1000)), static_cast<uint32_t>(r.below(1000))});
    EncoderBuffer payload;
    bool ok;
    if (level == 0) { DynamicIntegerPointsKdTreeEncoder<0> e(3); ok = e.EncodePoints(pts.begin(), pts.end(), 10, &payload); }
    else { DynamicIntegerPointsKdTreeEncoder<6> e(3); ok = e.EncodePoints(pts.begin(), pts.end(), 10, &payload); }
    if (!ok) { fprintf(stderr, "special legacy integer kd-tree: payload encoder failed\n"); return 1; }
    std::string s("DRACO", 5);
    auto put8 = [&](uint8_t v) { s.push_back(static_cast<char>(v)); };
    auto put32 = [&](uint32_t v) { for (int i = 0; i < 4; ++i) s.push_back(static_cast<char>((v >> (8 * i)) & 0xff)); };
    put8(2); put8(2); put8(POINT_CLOUD); put8(POINT_CLOUD_KD_TREE_ENCODING); put8(0); put8(0);
    put32(20); put8(1); put8(1);
    put8(GeometryAttribute::POSITION); put8(DT_UINT32); put8(3); put8(0); put8(0);
    put8(1 /* kKdTreeIntegerEncoding */); put8(static_cast<uint8_t>(level)); put32(20);
    s.append(payload.data(), payload.size());
    vf::DecResult dr = vf::Decode(s.data(), s.size());
    if (!dr.status.ok() || dr.pc->num_points() != 20) { fprintf(stderr, "special legacy integer kd-tree level %d does not decode: %s\n", level, dr.status.error_msg()); return 1; }
    std::ofstream f(dir + "/legacy_kdtree_integer_l" + std::to_string(level) + ".drc", std::ios::binary);
    f.write(s.data(), s.size());
    printf("legacy kd-tree integer level %d: %zu bytes\n", level, s.size());
  }
  // Streams for the prediction decoders no current encoder selects (deprecated methods 2 = multi-parallelogram and
  // 3 = tex-coords): a current stream whose prediction-method byte is rewritten (5 -> 3, 1 -> 2; the stored data has
  // the same layout). Kept when the rewritten stream decodes OK and the hook reports the deprecated method.
  // (Method 3 cannot be obtained that way - the rewritten stream does not decode; corpus/special/deprecated_texcoords_method3.drc
  //  is the 184-byte stream embedded in seeded/r18/demo.cc, produced there by an encoder with a patched factory.)
  for (int target = 2; target <= 2; ++target) {
    Rng r(99, 6, target);
    vf::Topo t;
    vf::GridPatch(t, 4, 4, false, false);
    vf::GenParams gp;
    gp.allow_unused = false;
    std::vector<vf::AttrPlan> plans = {{GeometryAttribute::POSITION, DT_FLOAT32, 3, false, 0, 0, 0}, {GeometryAttribute::TEX_COORD, DT_FLOAT32, 2, false, 1, 0.0, 1}};
    vf::Geo g = vf::BuildGeo(r, t, plans, gp);
    vf::EncOpts o;
    o.expert = true; o.method = 1; o.enc_speed = 5; o.dec_speed = 5;
    o.qbits = {11, 10};
    o.pred = {MESH_PREDICTION_PARALLELOGRAM, target == 3 ? MESH_PREDICTION_TEX_COORDS_PORTABLE : MESH_PREDICTION_PARALLELOGRAM};
    std::unique_ptr<Mesh> mesh = vf::ToMesh(g);
    vf::EncResult er = vf::Encode(g, *mesh, mesh.get(), o);
    if (!er.status.ok()) { fprintf(stderr, "special deprecated %d: %s\n", target, er.status.error_msg()); return 1; }
    const uint8_t from = target == 3 ? MESH_PREDICTION_TEX_COORDS_PORTABLE : MESH_PREDICTION_PARALLELOGRAM;
    bool done = false;
    for (size_t off = 11; off < er.bytes.size() && !done; ++off) {
      if (static_cast<uint8_t>(er.bytes[off]) != from) continue;
      std::string m = er.bytes;
      m[off] = static_cast<char>(target);
      vf::Trace trace;
      vf::DecResult dr = vf::Decode(m.data(), m.size());
      bool seen = false;
      for (auto &e : trace.evs) if (e.kind == draco::verif::EV_DEC_PREDICTION && e.a == target) seen = true;
      if (dr.status.ok() && seen) {
        std::ofstream f(dir + (target == 3 ? "/deprecated_texcoords_method3.drc" : "/deprecated_multi_parallelogram_method2.drc"), std::ios::binary);
        f.write(m.data(), m.size());
        printf("deprecated method %d: %zu bytes, method byte at %zu\n", target, m.size(), off);
        done = true;
      }
    }
    if (!done) { fprintf(stderr, "no decodable stream for deprecated method %d\n", target); return 1; }
  }
  return 0;
}

int main(int argc, char **argv) {
  for (int i = 1; i + 1 < argc; ++i) if (std::string(argv[i]) == "--emit-special") return EmitSpecial(argv[i + 1]);
  for (int i = 1; i + 1 < argc; ++i) if (std::string(argv[i]) == "--file") {
    // Debug / replay aid: decode one file under the monitors and print the outcome.
    Base b{argv[i + 1], ReadFile(argv[i + 1]), kGeometry, 0};
    Outcome oc;
    RunDecode(b, b.bytes, 0, 0, true, true, &oc);
    printf("ok=%d status=%s c03=[%s] points=%u faces=%u bad_alloc=%d max_request=%lld peak=%lld declared_sum=%lld\n", oc.ok, oc.status.c_str(), oc.c03.c_str(), oc.np, oc.nf, oc.bad_alloc, (long long)oc.max_request, (long long)oc.peak, (long long)oc.declared_sum);
    return oc.c03.empty() ? 0 : 1;
  }
  {
    vf::Args a = vf::ParseArgs(argc, argv);
    BuildBases(a);
    BuildTamperBases(a);
    if (a.Get("plan") == "1") { printf("bases=%zu plan_total=%lld tamper_bases=%zu\n", g_bases.size(), (long long)g_plan_total, g_tamper.size()); return 0; }
  }
  return vf::RunHarness(argc, argv, "C02", [](int64_t k, Rng &r, Reporter &rep) {
    const std::string prop = rep.args().prop;
    const bool c02 = prop == "C02", c03 = prop == "C03", c18 = prop == "C18";
    std::string mutated, how;
    const Base *base = nullptr;
    Base tamper_base_holder;
    // ---- choose input ---------------------------------------------------------------------
    const int64_t sys_cases = rep.args().GetInt("systematic", 1) ? g_plan_total : 0;
    if (k < sys_cases) {
      auto it = std::upper_bound(g_plan.begin(), g_plan.end(), k, [](int64_t v, const Segment &s) { return v < s.start; });
      const Segment &sg = *(it - 1);
      base = &g_bases[sg.base];
      const int64_t j = k - sg.start;
      const std::string &b = base->bytes;
      switch (sg.kind) {
        case 0: mutated = b.substr(0, j); how = "truncate@" + std::to_string(j); break;
        case 1: mutated = MutByte(b, j / 8, j % 8); how = "byte@" + std::to_string(j / 8) + "/pat" + std::to_string(j % 8); break;
        case 2: mutated = MutU32(b, j / 6, j % 6); how = "u32@" + std::to_string(j / 6) + "/pat" + std::to_string(j % 6); break;
        case 3: mutated = MutVarint(b, j / 4, j % 4); how = "varint@" + std::to_string(j / 4) + "/pat" + std::to_string(j % 4); break;
        case 5: {
          const int64_t L = static_cast<int64_t>(b.size()), nt = L / 4 + 1;
          if (j < nt) { mutated = b.substr(0, 4 * j); how = "truncate@" + std::to_string(4 * j); }
          else if (j < nt + 2 * L) { const int64_t q = j - nt; const int pat = (q % 2) ? 3 : 0; mutated = MutByte(b, q / 2, pat); how = "byte@" + std::to_string(q / 2) + "/pat" + std::to_string(pat); }
          else { const int64_t q = j - nt - 2 * L; mutated = MutU32(b, q, 4); how = "u32@" + std::to_string(q) + "/pat4"; }
          break;
        }
        case 6: mutated = b; how = "as-is"; break;
        default: mutated = MutMagic(b, j / 16, j % 16); how = "magic@" + std::to_string(j / 16) + "/pat" + std::to_string(j % 16); break;
      }
      rep.count("mutation/" + std::string(sg.kind == 0 ? "truncate" : sg.kind == 1 ? "byte" : sg.kind == 2 ? "u32" : sg.kind == 3 ? "varint" : sg.kind == 4 ? "wrap-magic" : sg.kind == 5 ? "legacy-thinned" : "as-is"));
    } else {
      const int64_t kk = k - sys_cases;
      const int mode = static_cast<int>(kk % 8);
      if (mode < 4 && !g_tamper.empty()) {
        // semantic tamper: (base, site, occurrence, replacement)
        TamperBase &t = *g_tamper[r.below(g_tamper.size())];
        std::vector<int> sites;
        for (int s = 1; s < static_cast<int>(t.counts.size()); ++s) if (t.counts[s] > 0) sites.push_back(s);
        if (sites.empty()) { rep.held(0, false); return; }
        // EB symbols and bits are favoured: they are what byte flipping cannot reach.
        int site = sites[r.below(sites.size())];
        for (int tries = 0; tries < 2; ++tries) if (site == draco::verif::TS_VARINT || site == draco::verif::TS_LSB32) site = sites[r.below(sites.size())];
        TamperCtx ctx{site, static_cast<int64_t>(r.below(t.counts[site])), 0, 0, false, std::vector<int64_t>(16, 0)};
        using namespace draco::verif;
        if (site == TS_EB_SYMBOL || site == TS_EB_VALENCE_SYMBOL) { const int64_t syms[5] = {0, 1, 3, 5, 7}; ctx.replacement = syms[r.below(5)]; }
        else if (site == TS_RANS_BIT || site == TS_DIRECT_BIT) { ctx.replacement = 1; ctx.relative = false; ctx.replacement = r.below(2); }
        else if (site == TS_VARINT || site == TS_SYMBOL || site == TS_LSB32) {
          const int64_t rel[6] = {1, -1, 2, 1000, -1000, 0};
          int m = r.below(12);
          if (m < 5) { ctx.relative = true; ctx.replacement = rel[m]; }
          else if (m < 9) { const int64_t abs[4] = {0, 0x7fffffff, 0xffffffffll, 1 << 20}; ctx.replacement = abs[m - 5]; }
          else { ctx.replacement = kWrapMagic[r.below(8)]; }
        }
        rep.note("phase=tamper-encode site=" + std::to_string(site) + " occurrence=" + std::to_string(ctx.target) + " replacement=" + std::to_string(ctx.replacement) + (ctx.relative ? "(rel)" : ""));
        auto &h = draco::verif::hooks();
        h.tamper = TamperFn; h.ctx = &ctx;
        vf::EncResult er = vf::Encode(t.g, *t.pc, t.mesh.get(), t.o);
        h.tamper = nullptr; h.ctx = nullptr;
        if (!er.status.ok()) { rep.count("tamper_encoder_refused"); rep.held(0, false); return; }
        if (er.bytes == t.valid) { rep.count("tamper_no_effect"); rep.held(0, false); return; }
        tamper_base_holder = {"tamper", er.bytes, kGeometry, 0};
        base = &tamper_base_holder;
        mutated = er.bytes;
        how = "tamper/site" + std::to_string(site) + "/occ" + std::to_string(ctx.target) + "/val" + std::to_string(ctx.replacement) + (ctx.relative ? "rel" : "");
        rep.count("mutation/tamper-site" + std::to_string(site));
      } else {
        base = &g_bases[r.below(g_bases.size())];
        const std::string &b = base->bytes;
        mutated = b;
        if (mode == 4 || mode == 5) {  // random multi-site
          int sites = 2 + r.below(7);
          for (int s = 0; s < sites; ++s) {
            size_t off = r.below(mutated.size());
            int w = r.below(3);
            if (w == 0) mutated = MutByte(mutated, off, r.below(8)); else if (w == 1) mutated = r.below(4) ? MutU32(mutated, off, r.below(6)) : MutMagic(mutated, off, r.below(16)); else mutated[off] = static_cast<char>(r.below(256));
          }
          how = "multi-site/" + std::to_string(sites);
          rep.count("mutation/multi-site");
        } else if (mode == 6) {  // header rewrite
          if (mutated.size() >= 11) {
            switch (r.below(5)) {
              case 0: mutated[5] = static_cast<char>(r.below(4)); mutated[6] = static_cast<char>(r.below(6)); break;  // version
              case 1: mutated[7] = static_cast<char>(r.below(4)); break;                                               // geometry type
              case 2: mutated[8] = static_cast<char>(r.below(4)); break;                                               // method
              case 3: mutated[9] = static_cast<char>(r.below(256)); mutated[10] = static_cast<char>(r.below(256)); break;  // flags
              default: mutated[7] ^= 1; mutated[8] ^= 1; break;
            }
          }
          how = "header-rewrite";
          rep.count("mutation/header");
        } else {  // splice: prefix of A + suffix of B, duplicated or dropped section
          const Base &o = g_bases[r.below(g_bases.size())];
          size_t cut_a = r.below(b.size() + 1), cut_b = r.below(o.bytes.size() + 1);
          int w = r.below(3);
          if (w == 0) mutated = b.substr(0, cut_a) + o.bytes.substr(cut_b);
          else if (w == 1) { size_t len = r.below(b.size() - std::min(cut_a, b.size() - 1)); mutated = b.substr(0, cut_a) + b.substr(cut_a, len) + b.substr(cut_a); }
          else { size_t len = r.below(b.size() - std::min(cut_a, b.size() - 1)); mutated = b.substr(0, cut_a) + b.substr(std::min(b.size(), cut_a + len)); }
          how = "splice/" + std::to_string(w);
          rep.count("mutation/splice");
        }
      }
    }
    // ---- entry point / options ------------------------------------------------------------------
    int entry = 0;
    uint32_t skip = 0;
    if (base->kind == kGeometry) {
      const uint64_t h = vf::HashCombine(k, 99);
      entry = (h % 4 == 0) ? static_cast<int>(1 + (h >> 8) % 4) : 0;
      if ((h >> 16) % 5 == 0) skip = static_cast<uint32_t>((h >> 24) % 32);
    }
    const bool at_end = (k & 1) == 0;
    rep.note(base->name + " " + how + " entry=" + std::to_string(entry) + " skip=" + std::to_string(skip));
    rep.stage(0, "input.bin", mutated.data(), mutated.size());
    Outcome oc;
    // The structural validator / read-everything pass belongs to C03 (it reads attribute values through the public
    // accessors, e.g. a DT_BOOL attribute holding the byte 247, which UBSan flags inside the accessor, not inside a decode call).
    RunDecode(*base, mutated, entry, skip, at_end, /*validate=*/c03, &oc);
    const std::string where = base->name + " " + how + " entry=" + std::to_string(entry) + " skip=" + std::to_string(skip) + " status=" + oc.status;
    std::vector<Reporter::Artifact> arts = {{"input.bin", mutated}, {"case.txt", where}};
    const std::string kindname = base->kind == kGeometry ? "geometry" : base->kind == kKeyframes ? "keyframes" : base->kind == kMetadata ? "metadata" : "symbols";
    const int64_t B = kC0 + kKin * static_cast<int64_t>(mutated.size()) + kKel * oc.declared_sum;
    // An over-cap request is the tolerated exit iff it is explained by the declared element counts (same bound as C18:
    // E counts points x components per attribute, so arrays of up to 255 components x 8 bytes per point are covered).
    const bool justified = oc.refused_request <= B;
    // ---- verdicts -----------------------------------------------------------------------------------
    if (c02) {
      if (oc.input_changed) { rep.violation("input-bytes-modified/" + kindname, where, arts); return; }
      if (oc.other_exception) { rep.violation("exception/" + oc.exception.substr(0, oc.exception.find(':')) + "/" + kindname, where + " " + oc.exception, arts); return; }
      if (oc.bad_alloc && !justified) { rep.violation("allocation-failure-not-justified-by-declared-count/" + kindname + "/" + oc.where.substr(0, 60), where + " request=" + std::to_string(oc.refused_request) + " declared_max=" + std::to_string(oc.declared_max), arts); return; }
      if (oc.bad_alloc) rep.count("tolerated_exit/allocation-of-declared-count");
    }
    if (c03 && oc.ok && !oc.c03.empty()) {
      rep.violation("invalid-geometry-after-ok/" + oc.c03.substr(0, oc.c03.find(' ')) + "/" + kindname + (how.rfind("tamper", 0) == 0 ? "/tamper" : "/bytes"), where + " :: " + oc.c03, arts);
      return;
    }
    if (c18) {
      if (oc.max_request > B || oc.peak > B) {
        char m[300];
        snprintf(m, sizeof m, " max_request=%lld peak=%lld bound=%lld input=%zu declared_sum=%lld at=%s", (long long)oc.max_request, (long long)oc.peak, (long long)B, mutated.size(), (long long)oc.declared_sum, oc.where.c_str());
        rep.violation("allocation-exceeds-bound/" + kindname + "/" + (oc.where.empty() ? "unknown" : oc.where.substr(0, 90)), where + m, arts);
        return;
      }
      if (static_cast<double>(oc.peak) / B > 0.3 && rep.args().GetInt("debug-ratio", 0)) fprintf(stderr, "RATIO %.3f peak=%lld B=%lld len=%zu E=%lld %s at=%s\n", static_cast<double>(oc.peak) / B, (long long)oc.peak, (long long)B, mutated.size(), (long long)oc.declared_sum, where.c_str(), oc.where.c_str());
      rep.maxv("max_request_over_bound", static_cast<double>(oc.max_request) / B);
      rep.maxv("peak_over_bound", static_cast<double>(oc.peak) / B);
      rep.maxv("max_request_bytes", static_cast<double>(oc.max_request));
    }
    rep.count(oc.ok ? "decode/ok" : "decode/error");
    if (oc.ok) { rep.count("decode_ok/" + kindname + (how.rfind("tamper", 0) == 0 ? "/tamper" : "/bytes")); if (mutated != base->bytes || how.rfind("tamper", 0) == 0) rep.count("accepted_corrupted_streams"); }
    else rep.count("refusal/" + oc.status.substr(0, 48));
    rep.count("entry/" + std::to_string(entry));
    if (skip) rep.count("with_skip_transform");
    rep.count("kind/" + kindname);
    // non-trivial: the decoder got past the header (geometry) / consumed something
    const bool nontrivial = base->kind != kGeometry || (mutated.size() > 11 && oc.status != "Not a Draco file." && oc.status != "Failed to parse Draco header.");
    const bool counts_for_prop = c03 ? oc.ok : true;
    rep.held(vf::HashBytes(mutated.data(), mutated.size(), entry * 64 + skip), nontrivial && counts_for_prop);
    if (r.below(4000) == 0 || (oc.ok && r.below(400) == 0)) rep.sample("{\"input\":\"" + vf::JsonEscape(where) + "\",\"bytes\":" + std::to_string(mutated.size()) + ",\"points\":" + std::to_string(oc.np) + ",\"faces\":" + std::to_string(oc.nf) + "}");
  });
}
