// C05: existing bitstreams keep decoding to the same geometry, in the same order; unknown newer
// versions are rejected with a version error.
//   --freeze <dir> N : (maintenance) generate N streams with the current encoder and write
//                      <dir>/NNNN.drc + <dir>/digests.txt  (done once; corpus is committed)
//   --legacy-digests <file>: (maintenance) write digests of /repo/testdata/*.drc
// Check mode: case k < #legacy: legacy file; next: frozen corpus file; remaining cases: version-rewrite blocks.
#include <dirent.h>

#include <algorithm>
#include <fstream>
#include <map>

#include "common/canon.h"
#include "common/codec.h"
#include "common/geo.h"
#include "common/runner.h"
#include "common/trace.h"
#include "draco/io/obj_decoder.h"
#include "draco/metadata/geometry_metadata.h"

using namespace draco;
using vf::Reporter;
using vf::Rng;

static const std::string kCorpusDirS = vf::VerifRoot() + "/corpus/frozen";
static const char *kCorpusDir = kCorpusDirS.c_str();
static const std::string kLegacyDigestsS = vf::VerifRoot() + "/corpus/legacy_digests.txt";
static const char *kLegacyDigests = kLegacyDigestsS.c_str();

static std::string ReadFile(const std::string &p) {
  std::ifstream f(p, std::ios::binary);
  return std::string((std::istreambuf_iterator<char>(f)), std::istreambuf_iterator<char>());
}

static std::string DigestStr(const std::pair<uint64_t, uint64_t> &d) { char b[40]; snprintf(b, sizeof b, "%016llx%016llx", (unsigned long long)d.first, (unsigned long long)d.second); return b; }

// entry: 0 Decode{Mesh,PointCloud}FromBuffer by type, 1 DecodePointCloudFromBuffer (also for meshes), 2 DecodeBufferToGeometry
static std::string DecodeDigest(const std::string &bytes, int entry, Status *st_out = nullptr, uint32_t *np = nullptr, uint32_t *nf = nullptr) {
  DecoderBuffer db;
  db.Init(bytes.data(), bytes.size());
  Decoder dec;
  auto type = Decoder::GetEncodedGeometryType(&db);
  if (!type.ok()) { if (st_out) *st_out = type.status(); return "err"; }
  std::unique_ptr<PointCloud> pc;
  Mesh *mesh = nullptr;
  Status st;
  if (type.value() == TRIANGULAR_MESH) {
    if (entry == 0) { auto m = dec.DecodeMeshFromBuffer(&db); st = m.status(); if (m.ok()) { std::unique_ptr<Mesh> mm = std::move(m).value(); mesh = mm.get(); pc = std::move(mm); } }
    else if (entry == 1) { auto p = dec.DecodePointCloudFromBuffer(&db); st = p.status(); if (p.ok()) { pc = std::move(p).value(); mesh = static_cast<Mesh *>(pc.get()); } }
    else { std::unique_ptr<Mesh> mm(new Mesh()); st = dec.DecodeBufferToGeometry(&db, mm.get()); if (st.ok()) { mesh = mm.get(); pc = std::move(mm); } }
  } else {
    if (entry == 2) { std::unique_ptr<PointCloud> pp(new PointCloud()); st = dec.DecodeBufferToGeometry(&db, pp.get()); if (st.ok()) pc = std::move(pp); }
    else { auto p = dec.DecodePointCloudFromBuffer(&db); st = p.status(); if (p.ok()) pc = std::move(p).value(); }
  }
  if (st_out) *st_out = st;
  if (!st.ok()) return std::string("err:") + st.error_msg();
  if (np) *np = pc->num_points();
  if (nf) *nf = mesh ? mesh->num_faces() : 0;
  return DigestStr(vf::OrderedDigest(*pc, mesh));
}

static std::vector<std::string> ListDrc(const std::string &dir) {
  std::vector<std::string> v;
  DIR *d = opendir(dir.c_str());
  if (!d) return v;
  while (dirent *e = readdir(d)) { std::string n = e->d_name; if (n.size() > 4 && n.substr(n.size() - 4) == ".drc") v.push_back(n); }
  closedir(d);
  std::sort(v.begin(), v.end());
  return v;
}

static std::map<std::string, std::string> LoadDigests(const std::string &path) {
  std::map<std::string, std::string> m;
  std::ifstream f(path);
  std::string name, dg;
  while (f >> name >> dg) m[name] = dg;
  return m;
}

static int Freeze(const std::string &dir, int n) {
  mkdir(dir.c_str(), 0777);
  std::ofstream dg(dir + "/digests.txt");
  int written = 0;
  for (int k = 0; written < n && k < 40 * n; ++k) {
    Rng r(20261001, vf::HashStr("C05-freeze"), k);
    vf::GenParams gp;
    gp.point_cloud = r.below(4) == 0;
    int s = r.below(100);
    gp.size_class = s < 8 ? 1 : s < 60 ? 2 : 3;
    gp.narrow_int32 = true;
    gp.allow_special_floats = true;
    vf::Geo g = vf::GenGeo(r, gp);
    vf::EncOpts o = vf::GenOpts(r, g);
    vf::AvoidHugeEntropyTables(g, &o);
    std::unique_ptr<Mesh> mesh;
    std::unique_ptr<PointCloud> pcu;
    PointCloud *pc;
    if (g.is_mesh) { mesh = vf::ToMesh(g); pc = mesh.get(); } else { pcu = vf::ToPointCloud(g); pc = pcu.get(); }
    if (r.below(4) == 0) {
      std::unique_ptr<GeometryMetadata> gm(new GeometryMetadata());
      gm->AddEntryString("name", "frozen-" + std::to_string(k));
      gm->AddEntryInt("k", k);
      std::unique_ptr<Metadata> sub(new Metadata());
      sub->AddEntryDouble("d", 0.5 * k);
      gm->AddSubMetadata("sub", std::move(sub));
      if (!g.atts.empty()) { std::unique_ptr<AttributeMetadata> am(new AttributeMetadata()); am->set_att_unique_id(g.atts[0].unique_id); am->AddEntryString("att", "first"); gm->AddAttributeMetadata(std::move(am)); }
      pc->AddMetadata(std::move(gm));
    }
    vf::EncResult er = vf::Encode(g, *pc, mesh.get(), o);
    if (!er.status.ok() || er.bytes.size() > 6000) continue;
    Status st;
    std::string d = DecodeDigest(er.bytes, 0, &st);
    if (!st.ok()) continue;
    char name[32];
    snprintf(name, sizeof name, "%04d.drc", written);
    std::ofstream f(dir + "/" + name, std::ios::binary);
    f.write(er.bytes.data(), er.bytes.size());
    dg << name << " " << d << "\n";
    ++written;
  }
  printf("frozen %d streams\n", written);
  return 0;
}

// Larger streams: long symbol sequences with thousands of distinct symbols (high-precision rANS tables, raw scheme
// with 12..18-bit symbol lengths, valence coder on >= 1000 faces) that the small corpus cannot contain.
static int FreezeLarge(const std::string &dir) {
  std::ofstream dg(dir + "/digests_large.txt");
  int written = 0;
  for (int k = 0; k < 34; ++k) {
    Rng r(20261002, vf::HashStr("C05-freeze-large"), k);
    vf::Geo g;
    vf::EncOpts o;
    const bool pc = k % 3 == 0 || k >= 24;
    vf::Topo t;
    const bool wide_alphabet = k >= 24;  // 20000 values over 2^15: raw scheme at its high-precision rANS settings
    if (wide_alphabet) { t.nverts = 20000; t.name = "points"; for (uint32_t i = 0; i < t.nverts; ++i) t.coord.push_back({0, 0, 0}); }
    else if (pc) { t.nverts = 3000 + 500 * (k % 5); t.name = "points"; for (uint32_t i = 0; i < t.nverts; ++i) t.coord.push_back({static_cast<float>(r.uniform(-1, 1)), static_cast<float>(r.uniform(-1, 1)), static_cast<float>(r.uniform(-1, 1))}); }
    else { vf::GridPatch(t, 30 + k, 20 + (k % 7), k % 4 == 1, k % 8 == 5); }
    vf::GenParams gp;
    gp.point_cloud = pc;
    gp.allow_unused = false;
    std::vector<vf::AttrPlan> plans = {{GeometryAttribute::POSITION, DT_FLOAT32, 3, false, 0, 0, pc ? 1 : 0},
                                       {GeometryAttribute::GENERIC, k % 2 ? DT_FLOAT32 : DT_UINT16, 2, false, 0, 0, 1},
                                       {GeometryAttribute::TEX_COORD, DT_FLOAT32, 2, false, pc ? 0 : 1, 0.02, 1}};
    g = vf::BuildGeo(r, t, plans, gp);
    // noisy values -> many distinct residual symbols
    for (auto &a : g.atts) if (a.dt == DT_FLOAT32) for (size_t i = 0; i < a.nvals * a.nc; ++i) vf::PutF(a.data.data() + 4 * i, static_cast<float>(r.uniform(-1, 1)));
    for (auto &a : g.atts) if (a.dt == DT_UINT16) for (size_t i = 0; i < a.nvals * a.nc; ++i) { uint16_t v = static_cast<uint16_t>(r.below(1u << (9 + k % 7))); memcpy(a.data.data() + 2 * i, &v, 2); }
    if (wide_alphabet) {
      g.atts.resize(2);  // POSITION + integer GENERIC
      g.atts[1].dt = DT_UINT16; g.atts[1].nc = 1; g.atts[1].data.assign(g.atts[1].nvals * 2, 0);
      // skewed distribution over a few thousand symbols: entropy well below the bit length, so the raw scheme wins
      for (size_t i = 0; i < g.atts[1].nvals; ++i) { double x = std::fabs(r.gauss()) * (300 + 100 * (k % 5)); uint16_t v = static_cast<uint16_t>(x > 8191 ? 8191 : x); memcpy(g.atts[1].data.data() + 2 * i, &v, 2); }
    }
    o.expert = true;
    o.method = pc ? (k % 2) : (k % 5 == 4 ? 0 : 1);
    if (wide_alphabet) o.method = 0;
    o.eb_method = k % 2 ? 2 : 0;
    o.enc_speed = o.dec_speed = (k % 4 == 0) ? 10 : (k % 4 == 1 ? 5 : (k % 4 == 2 ? 2 : 7));
    o.qbits = {10 + k % 9, 11 + k % 6, 9 + k % 8};
    o.pred = {-100, -100, -100};
    if (wide_alphabet) { o.qbits = {8, -1}; o.pred = {-100, draco::PREDICTION_NONE}; const int sp[] = {0, 2, 0, 1, 3}; o.enc_speed = o.dec_speed = sp[k % 5]; }
    if (k % 3 != 1) o.pred[1] = draco::PREDICTION_NONE;  // integer values coded directly: raw scheme with 2^9..2^15 distinct symbols
    std::unique_ptr<Mesh> mesh; std::unique_ptr<PointCloud> pcu; const PointCloud *p;
    if (g.is_mesh) { mesh = vf::ToMesh(g); p = mesh.get(); } else { pcu = vf::ToPointCloud(g); p = pcu.get(); }
    vf::EncResult er = vf::Encode(g, *p, mesh.get(), o);
    if (!er.status.ok()) { fprintf(stderr, "large %d refused: %s\n", k, er.status.error_msg()); continue; }
    Status st;
    std::string d = DecodeDigest(er.bytes, 0, &st);
    if (!st.ok()) continue;
    char name[32];
    snprintf(name, sizeof name, "L%03d.drc", written);
    std::ofstream f(dir + "/" + name, std::ios::binary);
    f.write(er.bytes.data(), er.bytes.size());
    dg << name << " " << d << "\n";
    printf("%s %zu bytes\n", name, er.bytes.size());
    ++written;
  }
  return 0;
}

// High-bit streams: smooth grids quantized to 24..30 bits and coded with Edgebreaker at speed 0/1 (constrained
// multi-parallelogram prediction in its 32-bit wrap-around regime). Producing the 30-bit ones needs ~12 GiB once
// (entropy tracker of the unchanged encoder); decoding them is cheap. Appends to digests_large.txt.
// (one stream per process - `--freeze-highbits <dir> <k>` - because the unchanged encoder crashes on some 30-bit inputs)
static int FreezeHighBits(const std::string &dir, int only) {
  std::ofstream dg(dir + "/digests_large.txt", std::ios::app);
  int written = only;
  for (int k = only; k <= only; ++k) {
    const int bits_k = k < 4 ? (k == 0 ? 24 : k == 1 ? 26 : k == 2 ? 28 : 29) : 30;
    Rng r(20261002, vf::HashStr("C05-freeze-highbits"), k);
    vf::Topo t;
    vf::GridPatch(t, 16 + (3 * k) % 17, 14 + (2 * k) % 13, false, false, 0.4f * k);
    vf::GenParams gp;
    gp.allow_unused = false;
    std::vector<vf::AttrPlan> plans = {{GeometryAttribute::POSITION, DT_FLOAT32, 3, false, 0, 0, 0}};
    vf::Geo g = vf::BuildGeo(r, t, plans, gp);
    vf::EncOpts o;
    o.expert = true; o.method = 1; o.eb_method = k % 2 ? 2 : 0; o.enc_speed = o.dec_speed = k % 2;
    o.qbits = {bits_k}; o.pred = {-100};
    std::unique_ptr<Mesh> mesh = vf::ToMesh(g);
    vf::EncResult er = vf::Encode(g, *mesh, mesh.get(), o);
    if (!er.status.ok()) { fprintf(stderr, "highbits %d refused: %s\n", k, er.status.error_msg()); continue; }
    Status st;
    std::string d = DecodeDigest(er.bytes, 0, &st);
    if (!st.ok()) { fprintf(stderr, "highbits %d does not decode\n", k); continue; }
    char name[32];
    snprintf(name, sizeof name, "H%03d.drc", written);
    std::ofstream f(dir + "/" + name, std::ios::binary);
    f.write(er.bytes.data(), er.bytes.size());
    dg << name << " " << d << "\n";
    printf("%s %zu bytes q=%d speed=%d\n", name, er.bytes.size(), bits_k, k % 2);
    ++written;
  }
  return 0;
}

int main(int argc, char **argv) {
  for (int i = 1; i + 1 < argc; ++i) if (std::string(argv[i]) == "--freeze-highbits" && i + 2 < argc) return FreezeHighBits(argv[i + 1], atoi(argv[i + 2]));
  for (int i = 1; i + 1 < argc; ++i) if (std::string(argv[i]) == "--freeze-large") return FreezeLarge(argv[i + 1]);
  for (int i = 1; i < argc; ++i) {
    if (std::string(argv[i]) == "--freeze" && i + 2 < argc) return Freeze(argv[i + 1], atoi(argv[i + 2]));
    if (std::string(argv[i]) == "--digest" && i + 1 < argc) {  // (maintenance) prints "<basename> <digest>" for one stream file
      std::string b = ReadFile(argv[i + 1]); Status st; std::string d = DecodeDigest(b, 0, &st);
      std::string n = argv[i + 1]; n = n.substr(n.rfind('/') + 1);
      printf("%s %s\n", n.c_str(), st.ok() ? d.c_str() : "undecodable");
      return st.ok() ? 0 : 1;
    }
    if (std::string(argv[i]) == "--legacy-digests" && i + 1 < argc) {
      std::ofstream dg(argv[i + 1]);
      for (auto &n : ListDrc(vf::RepoRoot() + "/testdata")) { std::string b = ReadFile(vf::RepoRoot() + "/testdata/" + n); if (b.empty()) continue; Status st; std::string d = DecodeDigest(b, 0, &st); dg << n << " " << (st.ok() ? d : std::string("undecodable")) << "\n"; }
      return 0;
    }
  }
  static std::vector<std::string> legacy, frozen;
  static std::map<std::string, std::string> legacy_dg, frozen_dg;
  legacy = ListDrc(vf::RepoRoot() + "/testdata");
  frozen = ListDrc(kCorpusDir);
  legacy_dg = LoadDigests(kLegacyDigests);
  frozen_dg = LoadDigests(std::string(kCorpusDir) + "/digests.txt");
  { auto large = LoadDigests(std::string(kCorpusDir) + "/digests_large.txt"); frozen_dg.insert(large.begin(), large.end()); }
  return vf::RunHarness(argc, argv, "C05", [](int64_t k, Rng &r, Reporter &rep) {
    const int64_t nl = static_cast<int64_t>(legacy.size()), nfz = static_cast<int64_t>(frozen.size());
    if (nfz < 100 || legacy_dg.empty() || frozen_dg.size() != frozen.size()) { fprintf(stderr, "corpus missing or incomplete\n"); abort(); }
    if (k < nl + nfz) {
      const bool is_legacy = k < nl;
      const std::string name = is_legacy ? legacy[k] : frozen[k - nl];
      const std::string bytes = ReadFile((is_legacy ? (vf::RepoRoot() + "/testdata/") : std::string(kCorpusDir) + "/") + name);
      const std::string desc = std::string(is_legacy ? "legacy " : "frozen ") + name + " bytes=" + std::to_string(bytes.size());
      rep.note(desc);
      if (bytes.empty()) { rep.count("emptied_testdata_file"); rep.held(0, false); return; }
      const auto &dg = is_legacy ? legacy_dg : frozen_dg;
      auto it = dg.find(name);
      if (it == dg.end()) { rep.count("file_without_recorded_digest"); rep.held(0, false); return; }
      if (it->second == "undecodable") { rep.count("legacy_recorded_as_undecodable"); rep.held(0, false); return; }
      vf::Trace trace;
      uint32_t np = 0, nf = 0;
      for (int entry = 0; entry < 3; ++entry) {
        Status st;
        std::string d = DecodeDigest(bytes, entry, &st, &np, &nf);
        if (!st.ok()) { rep.violation(std::string("frozen-stream-no-longer-decodes/") + (is_legacy ? "legacy" : "current-encoder"), desc + " entry=" + std::to_string(entry) + " :: " + st.error_msg(), {{"stream.drc", bytes}}); return; }
        if (d != it->second) { rep.violation(std::string("frozen-stream-decodes-differently/") + (is_legacy ? "legacy" : "current-encoder"), desc + " entry=" + std::to_string(entry) + " digest=" + d + " recorded=" + it->second, {{"stream.drc", bytes}}); return; }
      }
      // Independent anchor for the test_nm legacy streams: decoded positions are the quantized positions of testdata/test_nm.obj.
      if (is_legacy && name.rfind("test_nm", 0) == 0) {
        std::string obj = ReadFile(vf::RepoRoot() + "/testdata/test_nm.obj");
        if (!obj.empty()) {
          DecoderBuffer ob; ob.Init(obj.data(), obj.size());
          Mesh om; ObjDecoder od;
          if (od.DecodeFromBuffer(&ob, &om).ok()) {
            DecoderBuffer db; db.Init(bytes.data(), bytes.size());
            Decoder dec; auto m = dec.DecodeMeshFromBuffer(&db);
            const PointAttribute *pa = om.GetNamedAttribute(GeometryAttribute::POSITION), *pb = m.ok() ? m.value()->GetNamedAttribute(GeometryAttribute::POSITION) : nullptr;
            if (!pb || m.value()->num_faces() != om.num_faces()) { rep.violation("legacy-anchor/face-count-differs-from-test_nm.obj", desc, {}); return; }
            float mn[3] = {1e30f, 1e30f, 1e30f}, mx[3] = {-1e30f, -1e30f, -1e30f};
            for (uint32_t i = 0; i < pa->size(); ++i) { float v[3]; pa->GetValue(AttributeValueIndex(i), v); for (int c = 0; c < 3; ++c) { mn[c] = std::min(mn[c], v[c]); mx[c] = std::max(mx[c], v[c]); } }
            const double tol = std::max({mx[0] - mn[0], mx[1] - mn[1], mx[2] - mn[2]}) / 512.0;  // streams use >= 10 bits
            for (uint32_t i = 0; i < pb->size(); ++i) {
              float v[3]; pb->GetValue(AttributeValueIndex(i), v);
              double best = 1e30;
              for (uint32_t j = 0; j < pa->size(); ++j) { float w[3]; pa->GetValue(AttributeValueIndex(j), w); double d2 = 0; for (int c = 0; c < 3; ++c) d2 += (double(v[c]) - w[c]) * (double(v[c]) - w[c]); best = std::min(best, d2); }
              if (std::sqrt(best) > tol) { rep.violation("legacy-anchor/position-not-near-any-test_nm.obj-position", desc + " value " + std::to_string(i), {}); return; }
            }
            rep.count("legacy_anchor_checked");
          }
        }
      }
      trace.CountPaths(rep, "path/");
      rep.count(is_legacy ? "streams/legacy" : "streams/frozen-current-encoder");
      rep.held(vf::HashBytes(bytes.data(), bytes.size()), true);
      if (is_legacy || r.below(40) == 0) rep.sample("{\"stream\":\"" + name + "\",\"points\":" + std::to_string(np) + ",\"faces\":" + std::to_string(nf) + ",\"digest\":\"" + it->second + "\"}");
      return;
    }
    // ---- version rewrite: one case = one (stream, major) with all 256 minors ----------------
    k -= nl + nfz;
    const int64_t per_stream = 256;
    const int64_t si = k / per_stream;
    const int major = static_cast<int>(k % per_stream);
    // streams: alternate legacy and frozen
    std::string name, bytes;
    if (si % 2 == 0) { name = legacy[(si / 2) % nl]; bytes = ReadFile(vf::RepoRoot() + "/testdata/" + name); } else { name = frozen[(si / 2 * 37) % nfz]; bytes = ReadFile(std::string(kCorpusDir) + "/" + name); }
    if (bytes.size() < 11) { rep.held(0, false); return; }
    const int type = static_cast<uint8_t>(bytes[7]);
    const int max_major = 2, max_minor = type == POINT_CLOUD ? 3 : 2;
    int64_t rejected = 0, accepted = 0;
    for (int minor = 0; minor < 256; ++minor) {
      std::string b = bytes;
      b[5] = static_cast<char>(major);
      b[6] = static_cast<char>(minor);
      rep.note("version rewrite " + name + " -> " + std::to_string(major) + "." + std::to_string(minor));
      rep.stage(0, "stream.drc", b.data(), b.size());
      Status st;
      DecodeDigest(b, 0, &st);
      const bool unsupported = major < 1 || major > max_major || (major == max_major && minor > max_minor);
      if (unsupported) {
        if (st.ok() || st.code() != Status::UNKNOWN_VERSION) {
          rep.violation("unknown-version-not-rejected-with-version-error", name + " version " + std::to_string(major) + "." + std::to_string(minor) + " status=" + (st.ok() ? std::string("OK") : st.error_msg_string()), {{"stream.drc", b}});
          return;
        }
        ++rejected;
      } else {
        ++accepted;  // may decode or fail, must not crash (sanitizer slice)
      }
    }
    rep.count("version_pairs_rejected", rejected);
    rep.count("version_pairs_supported_range", accepted);
    rep.held(vf::HashCombine(vf::HashBytes(name.data(), name.size()), major), true);
  });
}
