// C01 (round trip reproduces the geometry, modulo declared quantization) and
// C09 (reported encoded counts equal what the decoder produces). One execution serves both;
// --prop selects which oracle reports.
#include "common/canon.h"
#include "common/codec.h"
#include "common/geo.h"
#include "common/runner.h"
#include "common/trace.h"
#include "draco/compression/attributes/normal_compression_utils.h"

using namespace draco;
using vf::Reporter;
using vf::Rng;

static std::string DumpGeo(const vf::Geo &g) {
  std::string s = "family " + g.family + "\nmesh " + std::to_string(g.is_mesh) + " points " + std::to_string(g.npoints) + " faces " + std::to_string(g.faces.size()) + "\n";
  for (size_t a = 0; a < g.atts.size(); ++a) {
    auto &t = g.atts[a];
    s += "att " + std::to_string(a) + " type " + std::to_string(t.type) + " dt " + std::to_string(t.dt) + " nc " + std::to_string(t.nc) + " norm " + std::to_string(t.normalized) + " uid " +
         std::to_string(t.unique_id) + " elem " + std::to_string(t.elem) + " nvals " + std::to_string(t.nvals) + " identity " + std::to_string(t.point_to_val.empty()) + "\n";
    s += " data " + vf::Hex(t.data.data(), t.data.size(), 4096) + "\n map";
    for (size_t i = 0; i < t.point_to_val.size() && i < 2000; ++i) s += " " + std::to_string(t.point_to_val[i]);
    s += "\n";
  }
  s += "faces";
  for (size_t i = 0; i < g.faces.size() && i < 4000; ++i) s += " " + std::to_string(g.faces[i][0]) + "," + std::to_string(g.faces[i][1]) + "," + std::to_string(g.faces[i][2]);
  return s + "\n";
}

int main(int argc, char **argv) {
  return vf::RunHarness(argc, argv, "C01", [](int64_t k, Rng &r, Reporter &rep) {
    const bool thorough = rep.args().tier == "thorough";
    const bool c09 = rep.args().prop == "C09";
    const bool with_cc = rep.args().GetInt("compress-connectivity", 0) != 0;
    vf::GenParams gp;
    gp.point_cloud = r.below(4) == 0;
    {
      int s = r.below(100);
      gp.size_class = s < 3 ? 0 : s < 8 ? 1 : s < 45 ? 2 : s < (thorough ? 85 : 96) ? 3 : 4;
    }
    gp.float_pos = r.below(4) != 0;
    // ASan/UBSan slice: int32 attributes whose range reaches 2^31-1 are refused by the encoder, but the
    // refusal path runs through a signed overflow in the *encoding* wrap transform (encoder-side UB on an
    // input that is then refused; not a listed property). They are exercised in the plain variant only.
    gp.narrow_int32 = rep.args().Get("slice") == "asan";
    if (c09) { gp.max_extra_atts = 3; }
    vf::Geo g = vf::GenGeo(r, gp);
    if (!c09 && r.below(2500) == 0) {
      // Point counts on the boundaries where the sequential mesh coder changes its index width (256, 2^16; 2^21 is
      // left to the thorough tier): a zig-zag strip over exactly N points, position plus a small integer attribute.
      const uint32_t sizes[] = {255, 256, 257, 65535, 65536, 65537, 255, 256, 257};
      uint32_t N = sizes[r.below(9)];
      if (rep.args().tier == "thorough" && r.below(40) == 0) N = 2097151 + static_cast<uint32_t>(r.below(3));
      vf::Geo b;
      b.is_mesh = true; b.npoints = N; b.family = "boundary-size-" + std::to_string(N) + "+"; b.pos_att = 0;
      for (uint32_t i = 0; i + 2 < N; ++i) b.faces.push_back((i & 1) ? std::array<uint32_t, 3>{i + 1, i, i + 2} : std::array<uint32_t, 3>{i, i + 1, i + 2});
      vf::Attr pa; pa.type = GeometryAttribute::POSITION; pa.dt = DT_FLOAT32; pa.nc = 3; pa.unique_id = 0; pa.elem = 0; pa.nvals = N;
      pa.data.resize(static_cast<size_t>(N) * 12);
      for (uint32_t i = 0; i < N; ++i) { vf::PutF(pa.val(i), 0.5f * i); vf::PutF(pa.val(i) + 4, (i & 1) ? 1.f : 0.f); vf::PutF(pa.val(i) + 8, 0.001f * (i % 97)); }
      vf::Attr ia; ia.type = GeometryAttribute::GENERIC; ia.dt = DT_UINT16; ia.nc = 1; ia.unique_id = 5; ia.elem = 0; ia.nvals = N;
      ia.data.resize(static_cast<size_t>(N) * 2);
      for (uint32_t i = 0; i < N; ++i) { uint16_t v = static_cast<uint16_t>(i % 251); memcpy(ia.val(i), &v, 2); }
      b.atts.push_back(pa); b.atts.push_back(ia);
      g = b;
      rep.count("boundary_size_meshes/" + std::to_string(N));
    }
    if (r.below(8) == 0) { const int pads[] = {1, 4, 12}; g.pad_stride = pads[r.below(3)]; g.family += "padded-stride+"; }
    vf::EncOpts o = vf::GenOpts(r, g);
    if (!c09) o.track = r.below(2) != 0;
    if (!o.expert && r.below(4) == 0) o.history = 1 + static_cast<int>(r.below(2));  // the Encoder object has encoded something else before
    // The history *mesh* is encoded with this case's options: for a point-cloud case they were not vetted for mesh
    // coding (AvoidHugeEntropyTables looks at the case's own geometry), so above 18 position bits the history is a cloud.
    if (o.history == 1 && !g.is_mesh && vf::EffectiveQBits(g, o, g.pos_att) > 18) o.history = 2;
    vf::AvoidHugeEntropyTables(g, &o);
    if (gp.narrow_int32) {
      // ASan/UBSan slice: the tex-coord predictor squares 2*q-bit quantities in int64 and overflows (UB on both
      // sides, results still agree) for > 21-bit texture coordinates; that is recorded as a C02 finding
      // (decoder-side UB on a valid stream) and kept out of this slice.
      bool has_uv = false;
      for (size_t a = 0; a < g.atts.size(); ++a) if (g.atts[a].type == GeometryAttribute::TEX_COORD && g.atts[a].nc == 2) has_uv = true;
      for (size_t a = 0; a < g.atts.size(); ++a) {
        if (g.atts[a].type == GeometryAttribute::TEX_COORD && o.qbits[a] > 16) o.qbits[a] = 16;
        if (has_uv && g.atts[a].type == GeometryAttribute::POSITION && o.qbits[a] > 16) o.qbits[a] = 16;
      }
    }
    if (with_cc && g.is_mesh && r.below(2)) { o.compress_connectivity = 1; o.method = 0; }
    const std::string desc = g.family + " " + (g.is_mesh ? "mesh" : "pc") + " np=" + std::to_string(g.npoints) + " nf=" + std::to_string(g.faces.size()) + " na=" + std::to_string(g.atts.size()) + " | " + o.Describe();
    rep.note(desc);
    std::unique_ptr<Mesh> mesh;
    std::unique_ptr<PointCloud> pcu;
    const PointCloud *pc;
    if (g.is_mesh) { mesh = vf::ToMesh(g); pc = mesh.get(); } else { pcu = vf::ToPointCloud(g); pc = pcu.get(); }
    {
      std::string bad = vf::CheckStructure(*pc, mesh.get());
      if (!bad.empty()) { fprintf(stderr, "generator produced invalid geometry: %s\n", bad.c_str()); abort(); }
    }
    const std::string geodump = DumpGeo(g);
    rep.stage(0, "geometry.txt", geodump.data(), geodump.size());
    vf::Trace trace;
    vf::EncResult er = vf::Encode(g, *pc, mesh.get(), o);
    if (!er.status.ok()) {
      rep.count(std::string("encoder_refused/") + er.status.error_msg());
      rep.held(0, false);
      return;
    }
    rep.stage(1, "stream.drc", er.bytes.data(), er.bytes.size());
    const int method = static_cast<uint8_t>(er.bytes[8]);
    const bool is_kd = !g.is_mesh && method == POINT_CLOUD_KD_TREE_ENCODING;
    const bool is_eb = g.is_mesh && method == MESH_EDGEBREAKER_ENCODING;
    const std::string cfg = std::string(g.is_mesh ? (is_eb ? "edgebreaker" : "mesh-sequential") : (is_kd ? "kd-tree" : "pc-sequential")) + (o.compress_connectivity == 1 ? "+compress_connectivity" : "");
    trace.clear();
    vf::DecResult dr = vf::Decode(er.bytes.data(), er.bytes.size());
    std::vector<Reporter::Artifact> arts = {{"geometry.txt", geodump}, {"stream.drc", er.bytes}, {"options.txt", o.Describe()}};
    if (!dr.status.ok()) {
      if (!c09) rep.violation("decode-refuses-own-stream/" + cfg + "/" + dr.status.error_msg(), desc, arts);
      return;
    }
    const uint32_t dnp = dr.pc->num_points();
    const uint32_t dnf = dr.mesh ? dr.mesh->num_faces() : 0;
    if (c09) {
      if (er.num_points != dnp || er.num_faces != dnf) {  // a decoded point cloud has 0 faces: the report must say 0 too
        rep.violation(std::string("count-mismatch/") + (o.expert ? "ExpertEncoder/" : "Encoder/") + cfg + (er.num_points != dnp ? "/points" : "/faces"),
                      desc + " reported points=" + std::to_string(er.num_points) + " faces=" + std::to_string(er.num_faces) + " decoded points=" + std::to_string(dnp) + " faces=" + std::to_string(dnf), arts);
        return;
      }
      rep.count("config/" + cfg);
      rep.count(std::string("frontend/") + (o.expert ? "ExpertEncoder" : "Encoder"));
      if (dnp != g.npoints) rep.count("point_count_changed_by_encoding");
      if (dnf != g.faces.size()) rep.count("face_count_changed_by_encoding");
      rep.held(vf::HashBytes(er.bytes.data(), er.bytes.size()), dnp > 0);
      if (r.below(300) == 0) rep.sample("{\"case\":\"" + vf::JsonEscape(desc) + "\",\"reported_points\":" + std::to_string(er.num_points) + ",\"reported_faces\":" + std::to_string(er.num_faces) + ",\"decoded_points\":" + std::to_string(dnp) + ",\"decoded_faces\":" + std::to_string(dnf) + "}");
      return;
    }
    // ---- C01 oracle ------------------------------------------------------------------
    // Expected value transform on the input side.
    std::vector<vf::RefQuant> rq(g.atts.size());
    std::vector<int> mode(g.atts.size(), 0);  // 0 exact, 1 uniform quantization, 2 octahedral
    std::vector<OctahedronToolBox> otb(g.atts.size());
    for (size_t a = 0; a < g.atts.size(); ++a) {
      const auto &at = g.atts[a];
      const int q = vf::EffectiveQBits(g, o, static_cast<int>(a));
      if (at.dt != DT_FLOAT32 || q <= 0) continue;
      if (!is_kd && at.type == GeometryAttribute::NORMAL) {
        mode[a] = 2;
        otb[a].SetQuantizationBits(q);
      } else {
        mode[a] = 1;
        if (!vf::RefQuant::FromValues(reinterpret_cast<const float *>(at.data.data()), at.nvals, at.nc, q, &rq[a])) {
          rep.violation("encoder-accepted-unquantizable-attribute/" + cfg, desc, arts);
          return;
        }
      }
    }
    vf::ValueXform xf = [&](int att, uint32_t, const uint8_t *in, uint8_t *out) {
      const auto &at = g.atts[att];
      const int n = at.stride();
      if (mode[att] == 0) { memcpy(out, in, n); return; }
      float v[8], w[8];
      memcpy(v, in, n);
      if (mode[att] == 1) { for (int c = 0; c < at.nc; ++c) w[c] = rq[att].Apply(v[c], c); }
      else { int32_t s, t; otb[att].FloatVectorToQuantizedOctahedralCoords(v, &s, &t); otb[att].QuantizedOctahedralCoordsToUnitVector(s, t, w); }
      memcpy(out, w, n);
    };
    vf::Canon cin = vf::MakeCanon(*pc, mesh.get(), xf);
    vf::Canon cout = vf::MakeCanon(*dr.pc, dr.mesh);
    std::string bad = vf::CompareAttSets(cin, cout);
    if (!bad.empty()) { rep.violation("attribute-set/" + cfg, desc + " :: " + bad, arts); return; }
    int64_t om_deg = 0, om_loose = 0;
    if (is_eb) bad = vf::CompareEdgebreaker(cin, cout, &om_deg, &om_loose);
    else if (is_kd) bad = vf::ComparePointMultiset(cin, cout);
    else bad = vf::CompareOrdered(cin, cout);
    if (!bad.empty()) {
      // Localise: which single attributes fail the same comparison on their own?
      std::string which, cls;
      for (size_t a = 0; a < g.atts.size(); ++a) {
        vf::Canon ci = vf::MakeCanon(*pc, mesh.get(), xf, g.atts[a].unique_id), co = vf::MakeCanon(*dr.pc, dr.mesh, nullptr, g.atts[a].unique_id);
        int64_t x, y;
        std::string b = is_eb ? vf::CompareEdgebreaker(ci, co, &x, &y) : is_kd ? vf::ComparePointMultiset(ci, co) : vf::CompareOrdered(ci, co);
        if (!b.empty()) {
          which += " att" + std::to_string(a);
          if (cls.empty()) cls = "type" + std::to_string(g.atts[a].type) + "-dt" + std::to_string(g.atts[a].dt) + "-nc" + std::to_string(g.atts[a].nc) + (mode[a] == 1 ? "-uniformq" : mode[a] == 2 ? "-octa" : "-exact") + "-pred" + std::to_string(o.pred[a]) +
                                 " :: " + b;
        }
      }
      if (cls.empty()) cls = "combination-only";
      rep.violation("geometry-differs/" + cfg + "/" + cls.substr(0, cls.find(" ::")), desc + " :: failing:" + which + " :: " + cls + " :: all: " + bad, arts);
      return;
    }
    if (dr.remaining != 0) { rep.violation("stream-not-consumed/" + cfg, desc + " remaining=" + std::to_string(dr.remaining), arts); return; }
    rep.count("config/" + cfg);
    rep.count("omitted_degenerate_triangles", om_deg);
    rep.count("omitted_loose_points", om_loose);
    for (size_t a = 0; a < g.atts.size(); ++a) rep.count(std::string("attribute_mode/") + (mode[a] == 0 ? "exact" : mode[a] == 1 ? "uniform-quantized" : "octahedral"));
    rep.count("size_class/" + std::to_string(gp.size_class));
    if (g.family.find("torus") != std::string::npos) rep.count("family/torus");
    if (g.family.find("fins") != std::string::npos) rep.count("family/non-manifold");
    if (g.family.find("moebius") != std::string::npos) rep.count("family/moebius");
    trace.CountPaths(rep, "path/");
    rep.held(vf::HashBytes(er.bytes.data(), er.bytes.size()), dnp > 0);
    if (r.below(400) == 0) rep.sample("{\"case\":\"" + vf::JsonEscape(desc) + "\",\"bytes\":" + std::to_string(er.bytes.size()) + "}");
  });
}
