// Allocation monitor: replaces global operator new/delete in the harness that includes it.
// Records request sizes, live bytes and the peak between Begin()/End(), enforces a per-request
// and a live-bytes cap by throwing std::bad_alloc, and remembers the first in-Draco frame of the
// largest request (for C18 keys). Single-threaded use per monitored region (thread_local state).
#ifndef VERIF_ALLOC_MONITOR_H_
#define VERIF_ALLOC_MONITOR_H_
#include <dlfcn.h>
#include <execinfo.h>
#include <malloc.h>

#include <cstdint>
#include <cstdlib>
#include <cstring>
#include <new>
#include <string>

namespace vf {

struct AllocState {
  bool active = false;
  int64_t live = 0, peak = 0, max_request = 0, num_requests = 0;
  int64_t request_cap = 256ll << 20, live_cap = 1024ll << 20;
  int64_t refused_request = 0;  // size of the request that was refused (0 = none)
  char where[160] = {0};        // first Draco frame of the largest request >= 1 MiB
  bool in_hook = false;
};
inline AllocState &alloc_state() { static thread_local AllocState s; return s; }

inline void AllocBegin(int64_t request_cap = 256ll << 20, int64_t live_cap = 1024ll << 20) {
  AllocState &s = alloc_state();
  s = AllocState();
  s.request_cap = request_cap; s.live_cap = live_cap;
  s.active = true;
}
inline void AllocEnd() { alloc_state().active = false; }

inline void CaptureWhere(AllocState &s) {
  s.in_hook = true;
  void *bt[24];
  int n = backtrace(bt, 24);
  s.where[0] = 0;
  for (int i = 2; i < n; ++i) {
    Dl_info info;
    if (dladdr(bt[i], &info) && info.dli_sname && strstr(info.dli_sname, "draco")) { strncpy(s.where, info.dli_sname, sizeof(s.where) - 1); break; }
  }
  s.in_hook = false;
}

inline void *MonitoredAlloc(size_t n) {
  AllocState &s = alloc_state();
  if (s.active && !s.in_hook) {
    ++s.num_requests;
    const int64_t sn = static_cast<int64_t>(n);
    if (sn > s.max_request) { s.max_request = sn; if (sn >= (1 << 20)) CaptureWhere(s); }
    if (sn > s.request_cap || s.live + sn > s.live_cap) { s.refused_request = sn; throw std::bad_alloc(); }
  }
  void *p = malloc(n ? n : 1);
  if (!p) throw std::bad_alloc();
  if (s.active && !s.in_hook) { s.live += static_cast<int64_t>(malloc_usable_size(p)); if (s.live > s.peak) s.peak = s.live; }
  return p;
}
inline void MonitoredFree(void *p) {
  if (!p) return;
  AllocState &s = alloc_state();
  if (s.active && !s.in_hook) s.live -= static_cast<int64_t>(malloc_usable_size(p));
  free(p);
}

}  // namespace vf

void *operator new(size_t n) { return vf::MonitoredAlloc(n); }
void *operator new[](size_t n) { return vf::MonitoredAlloc(n); }
void *operator new(size_t n, const std::nothrow_t &) noexcept { try { return vf::MonitoredAlloc(n); } catch (...) { return nullptr; } }
void *operator new[](size_t n, const std::nothrow_t &) noexcept { try { return vf::MonitoredAlloc(n); } catch (...) { return nullptr; } }
void operator delete(void *p, const std::nothrow_t &) noexcept { vf::MonitoredFree(p); }
void operator delete[](void *p, const std::nothrow_t &) noexcept { vf::MonitoredFree(p); }
void operator delete(void *p) noexcept { vf::MonitoredFree(p); }
void operator delete[](void *p) noexcept { vf::MonitoredFree(p); }
void operator delete(void *p, size_t) noexcept { vf::MonitoredFree(p); }
void operator delete[](void *p, size_t) noexcept { vf::MonitoredFree(p); }

#endif
