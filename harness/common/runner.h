// Shared harness runner: argument parsing, forked case isolation, CPU-time
// watchdog, staged replay artifacts, JSON-lines reporting.
//
// Output protocol (one JSON object per line in --out):
//   {"t":"sum", ...}     periodic summary of a worker (counters are additive)
//   {"t":"viol", ...}    oracle violation reported by a case
//   {"t":"death", ...}   worker died inside a case (signal / sanitizer / abort)
//   {"t":"hang", ...}    CPU watchdog fired twice for the case
//   {"t":"inconcl", ...} watchdog fired once, re-run finished
//   {"t":"done", ...}    shard finished (written by the parent; absence = harness failure)
// Distinct non-trivial case signatures go to <out>.sigs as raw uint64.
#ifndef VERIF_RUNNER_H_
#define VERIF_RUNNER_H_

#include <dirent.h>
#include <execinfo.h>
#include <fcntl.h>
#include <signal.h>
#include <sys/mman.h>
#include <sys/resource.h>
#include <sys/stat.h>
#include <sys/time.h>
#include <sys/wait.h>
#include <time.h>
#include <unistd.h>

#include <cstdint>
#include <cstdio>
#include <cstdlib>
#include <cstring>
#include <cxxabi.h>
#include <exception>
#include <functional>
#include <map>
#include <string>
#include <typeinfo>
#include <unordered_set>
#include <vector>

#include "common/rng.h"

namespace vf {

// Root of the verification tree / of the draco tree the check runs against. bin/check exports
// VERIF_ROOT (its own location) so that a copy of /verif uses its own corpus, not /verif's.
inline std::string VerifRoot() { const char *e = getenv("VERIF_ROOT"); return (e && *e) ? e : "/verif"; }
inline std::string RepoRoot() { const char *e = getenv("VERIF_REPO"); return (e && *e) ? e : "/repo"; }


inline std::string JsonEscape(const std::string &s) {
  std::string o;
  o.reserve(s.size() + 8);
  for (unsigned char c : s) {
    switch (c) {
      case '"': o += "\\\""; break;
      case '\\': o += "\\\\"; break;
      case '\n': o += "\\n"; break;
      case '\r': o += "\\r"; break;
      case '\t': o += "\\t"; break;
      default:
        if (c < 0x20 || c >= 0x7f) {
          char b[8];
          snprintf(b, sizeof b, "\\u%04x", c);
          o += b;
        } else {
          o += static_cast<char>(c);
        }
    }
  }
  return o;
}

inline std::string Hex(const uint8_t *p, size_t n, size_t max = 256) {
  static const char *d = "0123456789abcdef";
  std::string o;
  for (size_t i = 0; i < n && i < max; ++i) {
    o += d[p[i] >> 4];
    o += d[p[i] & 15];
  }
  if (n > max) o += "...";
  return o;
}

struct Args {
  uint64_t seed = 1;
  int shard = 0, nshards = 1;
  int64_t cases = 100;
  int64_t only = -1;
  std::string tier = "quick";
  std::string out = "/dev/stdout";
  std::string replay_root = "";
  std::string prop = "";
  double cpu_budget_s = 20.0;
  std::map<std::string, std::string> extra;
  std::string Get(const std::string &k, const std::string &d = "") const {
    auto it = extra.find(k);
    return it == extra.end() ? d : it->second;
  }
  int64_t GetInt(const std::string &k, int64_t d) const {
    auto it = extra.find(k);
    return it == extra.end() ? d : strtoll(it->second.c_str(), nullptr, 0);
  }
};

inline Args ParseArgs(int argc, char **argv) {
  Args a;
  for (int i = 1; i < argc; ++i) {
    std::string k = argv[i];
    if (k.rfind("--", 0) != 0) continue;
    k = k.substr(2);
    std::string v = (i + 1 < argc) ? argv[i + 1] : "";
    if (v.rfind("--", 0) == 0) v = "1"; else ++i;
    if (k == "seed") a.seed = strtoull(v.c_str(), nullptr, 0);
    else if (k == "shard") { sscanf(v.c_str(), "%d/%d", &a.shard, &a.nshards); }
    else if (k == "cases") a.cases = strtoll(v.c_str(), nullptr, 0);
    else if (k == "only") a.only = strtoll(v.c_str(), nullptr, 0);
    else if (k == "tier") a.tier = v;
    else if (k == "out") a.out = v;
    else if (k == "replay-root") a.replay_root = v;
    else if (k == "prop") a.prop = v;
    else if (k == "cpu-budget") a.cpu_budget_s = atof(v.c_str());
    else a.extra[k] = v;
  }
  if (const char *e = getenv("VERIF_SEED")) {
    if (a.extra.find("seed-explicit") == a.extra.end() && a.seed == 1) a.seed = strtoull(e, nullptr, 0);
  }
  return a;
}

// Shared between parent and worker.
struct Shm {
  volatile int64_t cur_case;   // case being executed (-1 none)
  volatile int64_t next_pos;   // next position in this shard's case list
  volatile int timed_out;
  volatile int in_case;
  char msg[512];               // terminate handler message
  char note[512];              // free-form note set by the case before a risky call
  struct Slot { char name[32]; volatile uint32_t len; } slot[4];
  uint8_t stage[4][1 << 20];
};

class Reporter {
 public:
  Reporter(const Args &a, Shm *shm, int out_fd, int sig_fd)
      : args_(a), shm_(shm), out_fd_(out_fd), sig_fd_(sig_fd) {}

  const Args &args() const { return args_; }
  int64_t case_id() const { return case_; }
  void set_case(int64_t k) { case_ = k; }

  void count(const std::string &name, int64_t n = 1) { counters_[name] += n; }
  void maxv(const std::string &name, double v) {
    auto it = maxes_.find(name);
    if (it == maxes_.end() || v > it->second) maxes_[name] = v;
  }
  // Marks the current case as held; sig identifies the case (input+options).
  void held(uint64_t sig, bool nontrivial) {
    ++held_;
    if (nontrivial) {
      ++nontrivial_;
      // safety net for the evidence: remember one actual case of this window
      if (fallback_sample_.empty() && shm_->note[0]) fallback_sample_ = std::string("{\"case\":\"") + JsonEscape(shm_->note) + "\",\"k\":" + std::to_string(case_) + "}";
      if (seen_.insert(sig).second) sigs_.push_back(sig);
    }
  }
  void inconclusive(const std::string &why) { ++inconcl_; count("inconclusive/" + why); }
  void sample(const std::string &json_obj) {
    if (samples_.size() < 3) samples_.push_back(json_obj);
  }
  // Stage bytes so that the parent can save them if the worker dies.
  void stage(int slot, const char *name, const void *p, size_t n) {
    if (slot < 0 || slot >= 4) return;
    size_t m = n < sizeof(shm_->stage[0]) ? n : sizeof(shm_->stage[0]);
    strncpy(shm_->slot[slot].name, name, 31);
    memcpy(shm_->stage[slot], p, m);
    shm_->slot[slot].len = static_cast<uint32_t>(m);
  }
  void note(const std::string &s) {
    strncpy(shm_->note, s.c_str(), sizeof(shm_->note) - 1);
    shm_->note[sizeof(shm_->note) - 1] = 0;
  }
  void clear_stage() {
    for (auto &s : shm_->slot) s.len = 0;
    shm_->note[0] = 0;
  }

  struct Artifact { std::string name; std::string bytes; };
  // Reports an oracle violation. key: stable identification of the failing
  // (oracle clause, configuration class / call site).
  void violation(const std::string &key, const std::string &detail,
                 const std::vector<Artifact> &arts = {}) {
    ++viol_;
    // At most 8 replay directories per key and worker (the rest are counted only).
    std::string dir = (++replays_[key] <= 8) ? WriteReplay(args_, case_, key, detail, arts, shm_) : std::string();
    std::string line = "{\"t\":\"viol\",\"k\":" + std::to_string(case_) +
                       ",\"key\":\"" + JsonEscape(key) + "\",\"detail\":\"" +
                       JsonEscape(detail) + "\",\"replay\":\"" + JsonEscape(dir) + "\"}\n";
    WriteAll(out_fd_, line);
  }

  int64_t violations() const { return viol_; }

  void flush() {
    std::string s = "{\"t\":\"sum\",\"cases\":" + std::to_string(cases_) +
                    ",\"held\":" + std::to_string(held_) + ",\"nontrivial\":" +
                    std::to_string(nontrivial_) + ",\"inconclusive\":" + std::to_string(inconcl_) +
                    ",\"violations\":" + std::to_string(viol_) + ",\"counters\":{";
    bool first = true;
    for (auto &kv : counters_) {
      if (!first) s += ",";
      first = false;
      s += "\"" + JsonEscape(kv.first) + "\":" + std::to_string(kv.second);
    }
    s += "},\"max\":{";
    first = true;
    for (auto &kv : maxes_) {
      if (!first) s += ",";
      first = false;
      char b[64];
      snprintf(b, sizeof b, "%.9g", kv.second);
      s += "\"" + JsonEscape(kv.first) + "\":" + b;
    }
    s += "},\"samples\":[";
    if (samples_.empty() && !fallback_sample_.empty()) samples_.push_back(fallback_sample_);
    fallback_sample_.clear();
    for (size_t i = 0; i < samples_.size(); ++i) {
      if (i) s += ",";
      s += samples_[i];
    }
    s += "]}\n";
    WriteAll(out_fd_, s);
    if (!sigs_.empty()) {
      WriteAll(sig_fd_, std::string(reinterpret_cast<const char *>(sigs_.data()), sigs_.size() * 8));
    }
    cases_ = held_ = nontrivial_ = inconcl_ = viol_ = 0;
    counters_.clear();
    maxes_.clear();
    samples_.clear();
    sigs_.clear();
  }
  void case_done() { ++cases_; }

  static void WriteAll(int fd, const std::string &s) {
    size_t off = 0;
    while (off < s.size()) {
      ssize_t w = write(fd, s.data() + off, s.size() - off);
      if (w <= 0) break;
      off += w;
    }
  }
  static std::string WriteReplay(const Args &a, int64_t k, const std::string &key,
                                 const std::string &detail, const std::vector<Artifact> &arts,
                                 Shm *shm) {
    if (a.replay_root.empty()) return "";
    uint64_t h = 1469598103934665603ull;
    for (unsigned char c : key) { h ^= c; h *= 1099511628211ull; }
    char name[128];
    snprintf(name, sizeof name, "/s%llu-k%lld-%08x", (unsigned long long)a.seed, (long long)k,
             (unsigned)(h & 0xffffffff));
    std::string dir = a.replay_root + name;
    mkdir(a.replay_root.c_str(), 0777);
    mkdir(dir.c_str(), 0777);
    std::string cj = "{\"prop\":\"" + JsonEscape(a.prop) + "\",\"seed\":" + std::to_string(a.seed) +
                     ",\"case\":" + std::to_string(k) + ",\"cases\":" + std::to_string(a.cases) +
                     ",\"tier\":\"" + a.tier + "\",\"key\":\"" + JsonEscape(key) +
                     "\",\"detail\":\"" + JsonEscape(detail) + "\",\"extra\":{";
    bool first = true;
    for (auto &kv : a.extra) {
      if (!first) cj += ",";
      first = false;
      cj += "\"" + JsonEscape(kv.first) + "\":\"" + JsonEscape(kv.second) + "\"";
    }
    cj += "},\"note\":\"" + JsonEscape(shm ? std::string(shm->note) : "") + "\"}\n";
    WriteFile(dir + "/case.json", cj);
    for (auto &ar : arts) WriteFile(dir + "/" + ar.name, ar.bytes);
    if (shm) {
      for (auto &s : shm->slot) {
        if (s.len) {
          int idx = &s - shm->slot;
          WriteFile(dir + "/" + std::string(s.name),
                    std::string(reinterpret_cast<const char *>(shm->stage[idx]), s.len));
        }
      }
    }
    return dir;
  }
  static void WriteFile(const std::string &p, const std::string &b) {
    FILE *f = fopen(p.c_str(), "wb");
    if (!f) return;
    fwrite(b.data(), 1, b.size(), f);
    fclose(f);
  }

 private:
  Args args_;
  Shm *shm_;
  int out_fd_, sig_fd_;
  int64_t case_ = -1;
  int64_t cases_ = 0, held_ = 0, nontrivial_ = 0, inconcl_ = 0, viol_ = 0;
  std::map<std::string, int64_t> counters_;
  std::map<std::string, double> maxes_;
  std::map<std::string, int> replays_;
  std::vector<std::string> samples_;
  std::string fallback_sample_;
  std::vector<uint64_t> sigs_;
  std::unordered_set<uint64_t> seen_;
};

using CaseFn = std::function<void(int64_t k, Rng &rng, Reporter &rep)>;

// waitpid() with a safety net for a worker that is blocked for good: the CPU watchdog (ITIMER_PROF) cannot fire in a
// process that uses no CPU. If the worker has used no CPU time, has not moved to another case and has every
// thread asleep for kBlockedSeconds of wall time, it is killed and reported (returns true). A worker that is merely
// starved on a loaded machine is runnable ('R'), so load alone never triggers this.
inline bool WaitWorker(pid_t pid, int *st, volatile const int64_t *cur_case) {
  const double kBlockedSeconds = 120;
  auto now = [] { timespec ts; clock_gettime(CLOCK_MONOTONIC, &ts); return ts.tv_sec + ts.tv_nsec * 1e-9; };
  auto cpu_and_state = [&](long *cpu, bool *all_asleep) {
    *cpu = -1; *all_asleep = false;
    char path[64], buf[1024];
    snprintf(path, sizeof path, "/proc/%d/stat", static_cast<int>(pid));
    int fd = open(path, O_RDONLY);
    if (fd < 0) return;
    ssize_t n = read(fd, buf, sizeof buf - 1);
    close(fd);
    if (n <= 0) return;
    buf[n] = 0;
    const char *rp = strrchr(buf, ')');
    if (!rp) return;
    char state = 0; long ut = 0, stt = 0;
    // fields after ")": state ppid pgrp session tty tpgid flags minflt cminflt majflt cmajflt utime stime
    if (sscanf(rp + 1, " %c %*d %*d %*d %*d %*d %*u %*u %*u %*u %*u %ld %ld", &state, &ut, &stt) != 3) return;
    *cpu = ut + stt;
    bool asleep = true;
    snprintf(path, sizeof path, "/proc/%d/task", static_cast<int>(pid));
    if (DIR *d = opendir(path)) {
      while (dirent *e = readdir(d)) {
        if (e->d_name[0] == '.') continue;
        char tp[128], tb[512];
        snprintf(tp, sizeof tp, "/proc/%d/task/%s/stat", static_cast<int>(pid), e->d_name);
        int tfd = open(tp, O_RDONLY);
        if (tfd < 0) continue;
        ssize_t tn = read(tfd, tb, sizeof tb - 1);
        close(tfd);
        if (tn <= 0) continue;
        tb[tn] = 0;
        const char *trp = strrchr(tb, ')');
        if (trp && trp[1] == ' ' && trp[2] != 'S') asleep = false;
      }
      closedir(d);
    } else asleep = state == 'S';
    // A worker waiting for a child process of its own (cross-process comparisons, CLI tools, isolated encodes) is
    // not blocked as long as that child exists.
    if (asleep) {
      snprintf(path, sizeof path, "/proc/%d/task/%d/children", static_cast<int>(pid), static_cast<int>(pid));
      int cfd = open(path, O_RDONLY);
      if (cfd >= 0) { char cb[64]; ssize_t cn = read(cfd, cb, sizeof cb); close(cfd); if (cn > 0) asleep = false; }
    }
    *all_asleep = asleep;
  };
  double idle_since = now(), started = idle_since;
  long last_cpu = -2; int64_t last_case = -2;
  for (;;) {
    pid_t r = waitpid(pid, st, WNOHANG);
    if (r == pid) return false;
    if (r < 0) { *st = 0; return false; }
    const double t = now();
    usleep(t - started < 0.05 ? 500 : t - started < 2 ? 5000 : 100000);
    if (t - started < 2) continue;
    long cpu; bool asleep;
    cpu_and_state(&cpu, &asleep);
    if (cpu != last_cpu || *cur_case != last_case || !asleep) { last_cpu = cpu; last_case = *cur_case; idle_since = t; continue; }
    if (t - idle_since > kBlockedSeconds) {
      kill(pid, SIGKILL);
      waitpid(pid, st, 0);
      return true;
    }
  }
}

namespace detail {
inline Shm *&g_shm() { static Shm *s = nullptr; return s; }
inline int &g_crash_fd() { static int fd = -1; return fd; }
inline void OnVtAlarm(int) {
  if (g_shm()) g_shm()->timed_out = 1;
  _exit(97);
}
inline void OnCrash(int sig) {
  // The crash may have happened inside malloc (lock held) or on several threads at once: whatever goes wrong in
  // here, the default action of SIGALRM ends the process after 10 s, so a worker never blocks in its crash handler.
  signal(SIGALRM, SIG_DFL);
  alarm(10);
  int fd = g_crash_fd();
  if (fd >= 0) {
    const char *m = "CRASH signal\n";
    (void)!write(fd, m, strlen(m));
    void *bt[64];
    int n = backtrace(bt, 64);
    backtrace_symbols_fd(bt, n, fd);
  }
  signal(sig, SIG_DFL);
  raise(sig);
}
inline void OnTerminate() {
  Shm *s = g_shm();
  if (s) {
    std::type_info *t = abi::__cxa_current_exception_type();
    const char *nm = t ? t->name() : "no-exception";
    int st = 0;
    char *dem = abi::__cxa_demangle(nm, nullptr, nullptr, &st);
    std::string what;
    try { throw; } catch (const std::exception &e) { what = e.what(); } catch (...) {}
    snprintf(s->msg, sizeof s->msg, "uncaught:%s:%s", dem ? dem : nm, what.c_str());
  }
  abort();
}
}  // namespace detail

// Worker stderr (sanitizer reports included) goes to <out>.san.<pid>; removed when empty.
inline void RedirectStderr(const std::string &out) {
  std::string p = out + ".san." + std::to_string(getpid());
  int fd = open(p.c_str(), O_WRONLY | O_CREAT | O_TRUNC, 0666);
  if (fd >= 0) { dup2(fd, 2); close(fd); }
}

// Runs cases k = shard, shard+nshards, ... < cases, in forked workers.
// tolerated_exception(msg) may turn an uncaught-exception death into a tolerated exit.
inline int RunHarness(int argc, char **argv, const char *default_prop, CaseFn fn,
                      bool fork_isolation = true) {
  Args a = ParseArgs(argc, argv);
  if (a.prop.empty()) a.prop = default_prop;
  int out_fd = open(a.out.c_str(), O_WRONLY | O_CREAT | O_APPEND, 0666);
  if (out_fd < 0) { perror("open out"); return 2; }
  int sig_fd = open((a.out + ".sigs").c_str(), O_WRONLY | O_CREAT | O_APPEND, 0666);
  Shm *shm = static_cast<Shm *>(mmap(nullptr, sizeof(Shm), PROT_READ | PROT_WRITE,
                                     MAP_SHARED | MAP_ANONYMOUS, -1, 0));
  memset((void *)shm, 0, sizeof(Shm) - sizeof(shm->stage));
  detail::g_shm() = shm;

  std::vector<int64_t> ks;
  if (a.only >= 0) ks.push_back(a.only);
  else for (int64_t k = a.shard; k < a.cases; k += a.nshards) ks.push_back(k);

  auto run_range = [&](size_t from, size_t to, double budget_mult) {
    Reporter rep(a, shm, out_fd, sig_fd);
    std::set_terminate(detail::OnTerminate);
    struct sigaction sa;
    memset(&sa, 0, sizeof sa);
    sa.sa_handler = detail::OnVtAlarm;
    sigaction(SIGPROF, &sa, nullptr);
#if !defined(__SANITIZE_ADDRESS__) && !defined(__SANITIZE_THREAD__)
    {
      std::string cp = a.out + ".crash." + std::to_string(getpid());
      detail::g_crash_fd() = open(cp.c_str(), O_WRONLY | O_CREAT | O_TRUNC, 0666);
      { void *warm[4]; (void)backtrace(warm, 4); }  // loads libgcc_s now: the first backtrace() call dlopen()s and mallocs
      signal(SIGSEGV, detail::OnCrash);
      signal(SIGBUS, detail::OnCrash);
      signal(SIGFPE, detail::OnCrash);
      signal(SIGABRT, detail::OnCrash);
      signal(SIGILL, detail::OnCrash);
    }
#endif
    for (size_t p = from; p < to; ++p) {
      int64_t k = ks[p];
      shm->cur_case = k;
      shm->next_pos = p + 1;
      shm->msg[0] = 0;
      rep.clear_stage();
      rep.set_case(k);
      Rng rng(a.seed, HashStr(a.prop.c_str()), static_cast<uint64_t>(k));
      struct itimerval it;
      memset(&it, 0, sizeof it);
      double b = a.cpu_budget_s * budget_mult;
      it.it_value.tv_sec = static_cast<time_t>(b);
      it.it_value.tv_usec = static_cast<suseconds_t>((b - static_cast<time_t>(b)) * 1e6);
      setitimer(ITIMER_PROF, &it, nullptr);
      shm->in_case = 1;
      struct timespec t0, t1;
      clock_gettime(CLOCK_MONOTONIC, &t0);
      fn(k, rng, rep);
      clock_gettime(CLOCK_MONOTONIC, &t1);
      shm->in_case = 0;
      {
        const double dt = (t1.tv_sec - t0.tv_sec) + 1e-9 * (t1.tv_nsec - t0.tv_nsec);
        rep.maxv("case_seconds", dt);
        if (dt > 3.0) {
          Reporter::WriteAll(out_fd, "{\"t\":\"slow\",\"k\":" + std::to_string(k) + ",\"s\":" + std::to_string(dt) + ",\"note\":\"" + JsonEscape(shm->note) + "\"}\n");
        }
      }
      memset(&it, 0, sizeof it);
      setitimer(ITIMER_PROF, &it, nullptr);
      rep.case_done();
      if ((p - from) % 512 == 511) rep.flush();
      if (rep.violations() >= a.GetInt("max-violations", 1 << 30)) {
        // Enough evidence from this shard (each violation is already reported with its replay).
        Reporter::WriteAll(out_fd, "{\"t\":\"stopped\",\"why\":\"max-violations reached\",\"at\":" + std::to_string(p + 1) + ",\"of\":" + std::to_string(to) + "}\n");
        break;
      }
    }
    rep.flush();
    {
      std::string sp = a.out + ".san." + std::to_string(getpid());
      struct stat st;
      if (stat(sp.c_str(), &st) == 0 && st.st_size == 0) unlink(sp.c_str());
    }
    if (detail::g_crash_fd() >= 0) {
      close(detail::g_crash_fd());
      unlink((a.out + ".crash." + std::to_string(getpid())).c_str());
    }
  };

  if (!fork_isolation || a.only >= 0) {
    // Replay / in-process mode: violations still reported; deaths kill us.
    run_range(0, ks.size(), 4.0);
    Reporter::WriteAll(out_fd, "{\"t\":\"done\",\"cases\":" + std::to_string(ks.size()) + "}\n");
    return 0;
  }

  size_t pos = 0;
  int64_t deaths = 0, abnormal = 0;  // abnormal: deaths + watchdog firings (each is reported on its own)
  const int64_t max_abnormal = a.GetInt("max-deaths", 1 << 30);
  while (pos < ks.size()) {
    if (abnormal >= max_abnormal) {
      // Enough evidence from this shard: every abnormal ending is already reported; a tree that dies or stalls on
      // every case would otherwise cost a worker restart, a sanitizer report or a full watchdog budget per case.
      Reporter::WriteAll(out_fd, "{\"t\":\"stopped\",\"why\":\"max-deaths reached\",\"at\":" + std::to_string(pos) + ",\"of\":" + std::to_string(ks.size()) + "}\n");
      break;
    }
    shm->cur_case = -1;
    shm->next_pos = pos;
    shm->timed_out = 0;
    shm->in_case = 0;
    fflush(nullptr);
    pid_t pid = fork();
    if (pid < 0) { perror("fork"); return 2; }
    if (pid == 0) {
      RedirectStderr(a.out);
      run_range(pos, ks.size(), 1.0);
      _exit(0);
    }
    int st = 0;
    bool blocked = WaitWorker(pid, &st, &shm->cur_case);
    if (blocked) snprintf(const_cast<char *>(shm->msg), sizeof shm->msg, "blocked: no CPU use, no progress and every thread asleep for 120 s (deadlock)");
    if (!blocked && WIFEXITED(st) && WEXITSTATUS(st) == 0) { pos = ks.size(); break; }
    // Worker died.
    int64_t k = shm->cur_case;
    size_t np = static_cast<size_t>(shm->next_pos);
    if (!shm->in_case || k < 0) {
      Reporter::WriteAll(out_fd, "{\"t\":\"harness_failure\",\"why\":\"worker died outside a case\",\"status\":" +
                                     std::to_string(st) + "}\n");
      return 2;
    }
    bool timeout = WIFEXITED(st) && WEXITSTATUS(st) == 97;
    ++abnormal;
    if (timeout) {
      // Re-run once with 4x budget in a fresh worker.
      shm->timed_out = 0;
      pid_t p2 = fork();
      if (p2 == 0) {
        RedirectStderr(a.out);
        run_range(np - 1, np, 4.0);
        _exit(0);
      }
      int st2 = 0;
      if (WaitWorker(p2, &st2, &shm->cur_case)) snprintf(const_cast<char *>(shm->msg), sizeof shm->msg, "blocked: no CPU use, no progress and every thread asleep for 120 s (deadlock)");
      if (WIFEXITED(st2) && WEXITSTATUS(st2) == 0) {
        Reporter::WriteAll(out_fd, "{\"t\":\"inconcl\",\"k\":" + std::to_string(k) + ",\"why\":\"cpu-watchdog-once\"}\n");
        pos = np;
        continue;
      }
      if (WIFEXITED(st2) && WEXITSTATUS(st2) == 97) {
        std::string dir = Reporter::WriteReplay(a, k, "hang", "cpu watchdog fired twice", {}, shm);
        Reporter::WriteAll(out_fd, "{\"t\":\"hang\",\"k\":" + std::to_string(k) + ",\"note\":\"" +
                                       JsonEscape(shm->note) + "\",\"replay\":\"" + JsonEscape(dir) + "\"}\n");
        pos = np;
        continue;
      }
      st = st2;
      pid = p2;
    }
    ++deaths;
    int sig = WIFSIGNALED(st) ? WTERMSIG(st) : 0;
    int ec = WIFEXITED(st) ? WEXITSTATUS(st) : -1;
    std::string dir = Reporter::WriteReplay(a, k, "death", std::string(shm->msg), {}, shm);
    std::string line = "{\"t\":\"death\",\"k\":" + std::to_string(k) + ",\"signal\":" + std::to_string(sig) +
                       ",\"exit\":" + std::to_string(ec) + ",\"pid\":" + std::to_string(pid) +
                       ",\"msg\":\"" + JsonEscape(shm->msg) + "\",\"note\":\"" + JsonEscape(shm->note) +
                       "\",\"replay\":\"" + JsonEscape(dir) + "\"}\n";
    Reporter::WriteAll(out_fd, line);
    pos = np;
    if (deaths > 2000) {
      Reporter::WriteAll(out_fd, "{\"t\":\"harness_failure\",\"why\":\"too many worker deaths\"}\n");
      return 2;
    }
  }
  Reporter::WriteAll(out_fd, "{\"t\":\"done\",\"cases\":" + std::to_string(ks.size()) + ",\"deaths\":" +
                                 std::to_string(deaths) + "}\n");
  close(out_fd);
  return 0;
}

}  // namespace vf

#endif  // VERIF_RUNNER_H_
