// Deterministic PRNG: splitmix64 seeding -> xoshiro256**. A case's stream is a pure
// function of (seed, property hash, case index).
#ifndef VERIF_RNG_H_
#define VERIF_RNG_H_
#include <cstdint>
#include <cstring>
#include <cmath>
#include <vector>
#include <string>

namespace vf {

inline uint64_t SplitMix64(uint64_t &x) {
  uint64_t z = (x += 0x9e3779b97f4a7c15ull);
  z = (z ^ (z >> 30)) * 0xbf58476d1ce4e5b9ull;
  z = (z ^ (z >> 27)) * 0x94d049bb133111ebull;
  return z ^ (z >> 31);
}

inline uint64_t HashStr(const char *s) {
  uint64_t h = 1469598103934665603ull;
  for (; *s; ++s) { h ^= static_cast<unsigned char>(*s); h *= 1099511628211ull; }
  return h;
}

inline uint64_t HashBytes(const void *p, size_t n, uint64_t h = 1469598103934665603ull) {
  const unsigned char *b = static_cast<const unsigned char *>(p);
  // FNV-1a on 8-byte words then bytes; followed by a finalizer.
  size_t i = 0;
  for (; i + 8 <= n; i += 8) {
    uint64_t w;
    memcpy(&w, b + i, 8);
    h ^= w;
    h *= 1099511628211ull;
    h ^= h >> 29;
  }
  for (; i < n; ++i) { h ^= b[i]; h *= 1099511628211ull; }
  h ^= h >> 32;
  h *= 0xd6e8feb86659fd93ull;
  h ^= h >> 32;
  return h;
}
inline uint64_t HashCombine(uint64_t a, uint64_t b) {
  uint64_t x = a ^ (b + 0x9e3779b97f4a7c15ull + (a << 6) + (a >> 2));
  return SplitMix64(x);
}

class Rng {
 public:
  Rng(uint64_t seed, uint64_t stream = 0, uint64_t idx = 0) {
    uint64_t x = seed * 0x2545F4914F6CDD1Dull ^ stream;
    x = SplitMix64(x) ^ (idx * 0x9e3779b97f4a7c15ull);
    for (auto &v : s_) v = SplitMix64(x);
  }
  uint64_t next() {
    const uint64_t r = rotl(s_[1] * 5, 7) * 9;
    const uint64_t t = s_[1] << 17;
    s_[2] ^= s_[0]; s_[3] ^= s_[1]; s_[1] ^= s_[2]; s_[0] ^= s_[3];
    s_[2] ^= t; s_[3] = rotl(s_[3], 45);
    return r;
  }
  uint32_t u32() { return static_cast<uint32_t>(next() >> 32); }
  // uniform in [0, n)
  uint64_t below(uint64_t n) { return n ? next() % n : 0; }
  // uniform in [lo, hi]
  int64_t range(int64_t lo, int64_t hi) { return lo + static_cast<int64_t>(below(static_cast<uint64_t>(hi - lo) + 1)); }
  bool chance(double p) { return unit() < p; }
  double unit() { return (next() >> 11) * (1.0 / 9007199254740992.0); }
  double uniform(double lo, double hi) { return lo + (hi - lo) * unit(); }
  double gauss() {
    double u1 = unit(), u2 = unit();
    if (u1 < 1e-300) u1 = 1e-300;
    return std::sqrt(-2.0 * std::log(u1)) * std::cos(6.283185307179586 * u2);
  }
  template <typename T>
  const T &pick(const std::vector<T> &v) { return v[below(v.size())]; }
  template <typename T, size_t N>
  const T &pick(const T (&v)[N]) { return v[below(N)]; }
  Rng fork() { return Rng(next(), next(), next()); }

 private:
  static uint64_t rotl(uint64_t x, int k) { return (x << k) | (x >> (64 - k)); }
  uint64_t s_[4];
};

}  // namespace vf
#endif
