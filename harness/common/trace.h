// Event hook collector: records DRACO_VERIF events of the current thread.
#ifndef VERIF_TRACE_H_
#define VERIF_TRACE_H_
#include <string>
#include <vector>

#include "draco/core/verif_hooks.h"

namespace vf {

struct Ev { int kind; int64_t a, b; };

class Trace {
 public:
  Trace() { Install(); }
  ~Trace() { Remove(); }
  void Install() {
    auto &h = draco::verif::hooks();
    saved_event_ = h.event; saved_ctx_ = h.ctx;
    h.event = &Trace::OnEvent; h.ctx = this;
  }
  void Remove() {
    auto &h = draco::verif::hooks();
    if (h.ctx == this) { h.event = saved_event_; h.ctx = saved_ctx_; }
  }
  void clear() { evs.clear(); }
  std::vector<Ev> evs;
  int64_t max_declared() const {
    int64_t m = 0;
    for (auto &e : evs) if (e.kind >= 1 && e.kind <= 5 && e.a > m) m = e.a;
    return m;
  }
  // Human-readable path markers for evidence histograms.
  template <class Rep>
  void CountPaths(Rep &rep, const std::string &prefix) const {
    using namespace draco::verif;
    for (auto &e : evs) {
      switch (e.kind) {
        case EV_DEC_METHOD: rep.count(prefix + "method/type" + std::to_string(e.a) + "-method" + std::to_string(e.b)); break;
        case EV_DEC_VERSION: rep.count(prefix + "version/" + std::to_string(e.a) + "." + std::to_string(e.b)); break;
        case EV_DEC_EB_SUBMETHOD: rep.count(prefix + "edgebreaker_traversal_coder/" + std::to_string(e.a)); break;
        case EV_DEC_ATT_TRAVERSAL: rep.count(prefix + "attribute_traversal/" + std::to_string(e.a)); break;
        case EV_DEC_SEQ_DECODER: rep.count(prefix + "sequential_decoder/" + std::to_string(e.a)); break;
        case EV_DEC_PREDICTION: rep.count(prefix + "prediction/method" + std::to_string(e.a) + "-transform" + std::to_string(e.b)); break;
        case EV_DEC_SYMBOLS: rep.count(prefix + "symbol_scheme/" + std::to_string(e.a)); break;
        case EV_DEC_KD_LEVEL: if (e.b == 0 || e.b == 1) rep.count(prefix + "kd_level/" + std::to_string(e.a)); break;
        case EV_DEC_EB_TOPOLOGY: rep.count(prefix + std::string("topology_splits/") + (e.a == 0 ? "0" : e.a < 4 ? "1-3" : ">=4")); break;
        case EV_ENC_EB_STATS: rep.count(prefix + std::string("eb_split_symbols/") + (e.b == 0 ? "0" : e.b < 4 ? "1-3" : ">=4")); break;
        default: break;
      }
    }
  }

 private:
  static void OnEvent(void *ctx, int kind, int64_t a, int64_t b) { static_cast<Trace *>(ctx)->evs.push_back({kind, a, b}); }
  void (*saved_event_)(void *, int, int64_t, int64_t) = nullptr;
  void *saved_ctx_ = nullptr;
};

}  // namespace vf
#endif
