// Geometry model of the harness ("Geo") + generator of topologies / attribute layouts and
// conversion to draco::Mesh / draco::PointCloud.  Everything is driven by a vf::Rng.
#ifndef VERIF_GEO_H_
#define VERIF_GEO_H_
#include <array>
#include <cmath>
#include <cstring>
#include <map>
#include <memory>
#include <string>
#include <vector>

#include "common/types.h"
#include "common/rng.h"
#include "draco/attributes/geometry_attribute.h"
#include "draco/attributes/point_attribute.h"
#include "draco/core/draco_types.h"
#include "draco/mesh/mesh.h"
#include "draco/point_cloud/point_cloud.h"

namespace vf {


using draco::DataType;
using draco::GeometryAttribute;

struct Attr {
  GeometryAttribute::Type type = GeometryAttribute::GENERIC;
  DataType dt = draco::DT_FLOAT32;
  int nc = 3;
  bool normalized = false;
  uint32_t unique_id = 0;
  int elem = 1;  // 0 vertex, 1 corner, 2 face (draco::MeshAttributeElementType order)
  size_t nvals = 0;
  std::vector<uint8_t> data;           // nvals * nc * DataTypeLength(dt)
  std::vector<uint32_t> point_to_val;  // per point; empty => identity
  int stride() const { return nc * TypeBytes(dt); }
  const uint8_t *val(size_t i) const { return data.data() + i * stride(); }
  uint8_t *val(size_t i) { return data.data() + i * stride(); }
  uint32_t map(uint32_t p) const { return point_to_val.empty() ? p : point_to_val[p]; }
};

struct Geo {
  bool is_mesh = true;
  uint32_t npoints = 0;
  std::vector<std::array<uint32_t, 3>> faces;  // point ids
  std::vector<Attr> atts;                      // atts[pos_att] is the POSITION attribute
  int pos_att = 0;
  std::string family;                          // description of how it was generated
  int pad_stride = 0;                          // extra bytes between attribute values (byte_stride > element size; C03 allows it)
};

// ---------------------------------------------------------------------------------
// Conversion to Draco objects.
inline void FillDraco(const Geo &g, draco::PointCloud *pc, draco::Mesh *mesh) {
  pc->set_num_points(g.npoints);
  if (mesh) {
    for (auto &f : g.faces) {
      draco::Mesh::Face face;
      for (int j = 0; j < 3; ++j) face[j] = draco::PointIndex(f[j]);
      mesh->AddFace(face);
    }
  }
  // Construction history (meshes, one geometry in three): before the last attribute is added, a scratch per-vertex
  // attribute is added, tagged MESH_VERTEX_ATTRIBUTE and deleted again; attributes whose element type is the default
  // (per corner) are then added without an explicit SetAttributeElementType call, as file loaders do. The resulting
  // mesh must be the same as one built directly.
  const uint64_t hsel = g.npoints + g.faces.size() * 7 + g.atts.size() * 13;
  const bool with_history = mesh && !g.atts.empty() && hsel % 3 == 0;
  // Second history (meshes and point clouds, one geometry in five): two or three scratch attributes of various types
  // are added *first* and deleted (DeleteAttribute(0), repeatedly) after the real attributes are in place, so that
  // every real attribute changes its id twice or more and the per-type attribute lists are renumbered repeatedly.
  const int front_scratch = (!g.atts.empty() && hsel % 5 == 1) ? 2 + static_cast<int>(hsel % 2) : 0;
  for (int s = 0; s < front_scratch; ++s) {
    const GeometryAttribute::Type st[] = {GeometryAttribute::GENERIC, GeometryAttribute::TEX_COORD, GeometryAttribute::NORMAL};
    GeometryAttribute sa;
    sa.Init(st[s % 3], nullptr, 1, draco::DT_UINT8, false, 1, 0);
    std::unique_ptr<draco::PointAttribute> sp(new draco::PointAttribute(sa));
    sp->SetIdentityMapping();
    sp->Reset(g.npoints);
    pc->AddAttribute(std::move(sp));
  }
  for (size_t a = 0; a < g.atts.size(); ++a) {
    const Attr &at = g.atts[a];
    if (with_history && a + 1 == g.atts.size()) {
      GeometryAttribute sa;
      sa.Init(GeometryAttribute::GENERIC, nullptr, 1, draco::DT_UINT8, false, 1, 0);
      std::unique_ptr<draco::PointAttribute> sp(new draco::PointAttribute(sa));
      sp->SetIdentityMapping();
      sp->Reset(g.npoints);
      const int sid = pc->AddAttribute(std::move(sp));
      mesh->SetAttributeElementType(sid, draco::MESH_VERTEX_ATTRIBUTE);
      mesh->DeleteAttribute(sid);
    }
    GeometryAttribute ga;
    ga.Init(at.type, nullptr, at.nc, at.dt, at.normalized, at.stride() + g.pad_stride, 0);
    const bool identity = at.point_to_val.empty();
    std::unique_ptr<draco::PointAttribute> pa(new draco::PointAttribute(ga));
    if (identity) pa->SetIdentityMapping(); else pa->SetExplicitMapping(g.npoints);
    pa->Reset(at.nvals);
    if (g.pad_stride == 0) { for (size_t i = 0; i < at.nvals; ++i) pa->SetAttributeValue(draco::AttributeValueIndex(static_cast<uint32_t>(i)), at.val(i)); }
    else {
      std::vector<uint8_t> padded(at.stride() + g.pad_stride, 0xA5);  // SetAttributeValue copies byte_stride() bytes
      for (size_t i = 0; i < at.nvals; ++i) { memcpy(padded.data(), at.val(i), at.stride()); pa->SetAttributeValue(draco::AttributeValueIndex(static_cast<uint32_t>(i)), padded.data()); }
    }
    if (!identity) for (uint32_t p = 0; p < g.npoints; ++p) pa->SetPointMapEntry(draco::PointIndex(p), draco::AttributeValueIndex(at.point_to_val[p]));
    pa->set_unique_id(at.unique_id);
    const int id = pc->AddAttribute(std::move(pa));
    pc->attribute(id)->set_unique_id(at.unique_id);
    if (mesh && !(with_history && at.elem == draco::MESH_CORNER_ATTRIBUTE)) mesh->SetAttributeElementType(id, static_cast<draco::MeshAttributeElementType>(at.elem));
  }
  for (int s = 0; s < front_scratch; ++s) pc->DeleteAttribute(0);
}
inline std::unique_ptr<draco::Mesh> ToMesh(const Geo &g) {
  std::unique_ptr<draco::Mesh> m(new draco::Mesh());
  FillDraco(g, m.get(), m.get());
  return m;
}
inline std::unique_ptr<draco::PointCloud> ToPointCloud(const Geo &g) {
  std::unique_ptr<draco::PointCloud> p(new draco::PointCloud());
  FillDraco(g, p.get(), nullptr);
  return p;
}

// ---------------------------------------------------------------------------------
// Topology at the vertex level: triangles over vertex ids 0..nverts-1, with 3D/2D
// parameter coordinates per vertex used to synthesise smooth attribute values.
struct Topo {
  uint32_t nverts = 0;
  std::vector<std::array<uint32_t, 3>> tris;
  std::vector<std::array<float, 3>> coord;  // per vertex
  std::string name;
};

inline void GridPatch(Topo &t, int w, int h, bool wrap_u, bool wrap_v, float twist = 0.f) {
  // (w x h) quads; wrap_u/v identify opposite borders (cylinder / torus).
  const int vw = wrap_u ? w : w + 1, vh = wrap_v ? h : h + 1;
  const uint32_t base = t.nverts;
  for (int j = 0; j < vh; ++j) for (int i = 0; i < vw; ++i) {
    float u = static_cast<float>(i) / w, v = static_cast<float>(j) / h;
    std::array<float, 3> c;
    if (wrap_u && wrap_v) { float a = 6.2831853f * u, b = 6.2831853f * v; c = {(2.f + std::cos(b)) * std::cos(a), (2.f + std::cos(b)) * std::sin(a), std::sin(b)}; }
    else if (wrap_u) { float a = 6.2831853f * u; c = {std::cos(a), std::sin(a), 2.f * v - 1.f}; }
    else c = {2.f * u - 1.f, 2.f * v - 1.f, 0.3f * std::sin(3.f * u + twist) * std::cos(2.f * v)};
    t.coord.push_back(c);
  }
  t.nverts += vw * vh;
  auto id = [&](int i, int j) { return base + static_cast<uint32_t>((j % vh) * vw + (i % vw)); };
  for (int j = 0; j < h; ++j) for (int i = 0; i < w; ++i) {
    uint32_t a = id(i, j), b = id(i + 1, j), c = id(i + 1, j + 1), d = id(i, j + 1);
    if ((i + j) & 1) { t.tris.push_back({a, b, c}); t.tris.push_back({a, c, d}); }
    else { t.tris.push_back({a, b, d}); t.tris.push_back({b, c, d}); }
  }
}

inline void Sphere(Topo &t, int level) {
  // Octahedron subdivided 'level' times (closed genus 0).
  std::vector<std::array<float, 3>> v = {{1, 0, 0}, {-1, 0, 0}, {0, 1, 0}, {0, -1, 0}, {0, 0, 1}, {0, 0, -1}};
  std::vector<std::array<uint32_t, 3>> f = {{0, 2, 4}, {2, 1, 4}, {1, 3, 4}, {3, 0, 4}, {2, 0, 5}, {1, 2, 5}, {3, 1, 5}, {0, 3, 5}};
  for (int l = 0; l < level; ++l) {
    std::map<std::pair<uint32_t, uint32_t>, uint32_t> mid;
    auto m = [&](uint32_t a, uint32_t b) {
      auto key = std::make_pair(std::min(a, b), std::max(a, b));
      auto it = mid.find(key);
      if (it != mid.end()) return it->second;
      std::array<float, 3> c = {(v[a][0] + v[b][0]) / 2, (v[a][1] + v[b][1]) / 2, (v[a][2] + v[b][2]) / 2};
      float n = std::sqrt(c[0] * c[0] + c[1] * c[1] + c[2] * c[2]);
      for (auto &x : c) x /= n;
      v.push_back(c);
      return mid[key] = static_cast<uint32_t>(v.size() - 1);
    };
    std::vector<std::array<uint32_t, 3>> nf;
    for (auto &tr : f) {
      uint32_t ab = m(tr[0], tr[1]), bc = m(tr[1], tr[2]), ca = m(tr[2], tr[0]);
      nf.push_back({tr[0], ab, ca}); nf.push_back({tr[1], bc, ab}); nf.push_back({tr[2], ca, bc}); nf.push_back({ab, bc, ca});
    }
    f.swap(nf);
  }
  const uint32_t base = t.nverts;
  for (auto &c : v) t.coord.push_back(c);
  t.nverts += static_cast<uint32_t>(v.size());
  for (auto &tr : f) t.tris.push_back({base + tr[0], base + tr[1], base + tr[2]});
}

inline void Tetra(Topo &t) {
  const uint32_t b = t.nverts;
  t.coord.push_back({1, 1, 1}); t.coord.push_back({1, -1, -1}); t.coord.push_back({-1, 1, -1}); t.coord.push_back({-1, -1, 1});
  t.nverts += 4;
  t.tris.push_back({b, b + 1, b + 2}); t.tris.push_back({b, b + 3, b + 1}); t.tris.push_back({b, b + 2, b + 3}); t.tris.push_back({b + 1, b + 3, b + 2});
}

inline void Fan(Topo &t, int n, bool closed) {
  const uint32_t b = t.nverts;
  t.coord.push_back({0, 0, 0.5f});
  for (int i = 0; i < n + (closed ? 0 : 1); ++i) { float a = 6.2831853f * i / (n + (closed ? 0 : 1)); t.coord.push_back({std::cos(a), std::sin(a), 0}); }
  t.nverts += 1 + n + (closed ? 0 : 1);
  for (int i = 0; i < n; ++i) t.tris.push_back({b, b + 1 + static_cast<uint32_t>(i), b + 1 + static_cast<uint32_t>(closed ? (i + 1) % n : i + 1)});
}

inline void Moebius(Topo &t, int n) {
  // Strip of n quads whose ends are joined with a half twist (non-orientable).
  const uint32_t b = t.nverts;
  for (int i = 0; i < n; ++i) {
    float a = 6.2831853f * i / n;
    for (int s = 0; s < 2; ++s) { float w = (s ? 0.4f : -0.4f); t.coord.push_back({(1 + w * std::cos(a / 2)) * std::cos(a), (1 + w * std::cos(a / 2)) * std::sin(a), w * std::sin(a / 2)}); }
  }
  t.nverts += 2 * n;
  for (int i = 0; i < n; ++i) {
    uint32_t a0 = b + 2 * i, a1 = b + 2 * i + 1, n0, n1;
    if (i + 1 < n) { n0 = b + 2 * (i + 1); n1 = n0 + 1; } else { n0 = b + 1; n1 = b; }
    t.tris.push_back({a0, n0, a1}); t.tris.push_back({a1, n0, n1});
  }
}

inline void Soup(Topo &t, Rng &r, int nv, int nf) {
  const uint32_t b = t.nverts;
  for (int i = 0; i < nv; ++i) t.coord.push_back({static_cast<float>(r.uniform(-1, 1)), static_cast<float>(r.uniform(-1, 1)), static_cast<float>(r.uniform(-1, 1))});
  t.nverts += nv;
  for (int i = 0; i < nf; ++i) t.tris.push_back({b + static_cast<uint32_t>(r.below(nv)), b + static_cast<uint32_t>(r.below(nv)), b + static_cast<uint32_t>(r.below(nv))});
}

// size_class: 0 = empty, 1 = 1 face, 2 = 2..12, 3 = 13..200, 4 = 201..3000 (approximately)
inline Topo GenTopo(Rng &r, int size_class) {
  Topo t;
  if (size_class == 0) { t.name = "empty"; return t; }
  if (size_class == 1) { t.name = "single"; Fan(t, 1, false); return t; }
  int target = size_class == 2 ? 2 + r.below(11) : size_class == 3 ? 13 + r.below(188) : 201 + r.below(2800);
  int comps = r.below(5) == 0 ? 2 + r.below(3) : 1;
  for (int c = 0; c < comps; ++c) {
    int budget = std::max(1, target / comps);
    int fam = r.below(10);
    int side = std::max(1, static_cast<int>(std::sqrt(budget / 2.0)));
    switch (fam) {
      case 0: case 1: GridPatch(t, side, std::max(1, budget / (2 * side)), false, false, static_cast<float>(r.unit())); t.name += "grid+"; break;
      case 2: GridPatch(t, std::max(3, side), std::max(1, budget / (2 * std::max(3, side))), true, false); t.name += "cylinder+"; break;
      case 3: GridPatch(t, std::max(3, side), std::max(3, budget / (2 * std::max(3, side))), true, true); t.name += "torus+"; break;
      case 4: { int lvl = budget < 20 ? 0 : budget < 100 ? 1 : budget < 400 ? 2 : 3; Sphere(t, lvl); t.name += "sphere+"; break; }
      case 5: if (budget < 8) { Tetra(t); t.name += "tetra+"; } else { Fan(t, std::min(budget, 60), r.below(2) != 0); t.name += "fan+"; } break;
      case 6: Moebius(t, std::max(3, budget / 2)); t.name += "moebius+"; break;
      case 7: Soup(t, r, 3 + r.below(std::max(3, budget / 2)), budget); t.name += "soup+"; break;
      case 8: { Tetra(t); int k = std::min(40, budget / 4); for (int i = 1; i < k; ++i) Tetra(t); t.name += "tetras+"; break; }
      default: GridPatch(t, std::max(1, budget / 2), 1, false, false); t.name += "strip+"; break;
    }
  }
  // Mutations.
  auto &T = t.tris;
  if (!T.empty() && r.below(3) == 0) {  // holes: remove faces
    int k = 1 + r.below(std::max<size_t>(1, T.size() / 8));
    for (int i = 0; i < k && T.size() > 1; ++i) T.erase(T.begin() + r.below(T.size()));
    t.name += "holes+";
  }
  if (!T.empty() && r.below(4) == 0) {  // non-manifold fins on existing edges
    int k = 1 + r.below(4);
    for (int i = 0; i < k; ++i) {
      auto f = T[r.below(T.size())];
      int e = r.below(3);
      int extra = 1 + r.below(3);
      for (int x = 0; x < extra; ++x) {
        uint32_t nv = r.below(2) ? static_cast<uint32_t>(r.below(t.nverts)) : t.nverts;
        if (nv == t.nverts) { t.coord.push_back({static_cast<float>(r.uniform(-1, 1)), static_cast<float>(r.uniform(-1, 1)), 1.5f}); ++t.nverts; }
        if (r.below(2)) T.push_back({f[e], f[(e + 1) % 3], nv}); else T.push_back({f[(e + 1) % 3], f[e], nv});
      }
    }
    t.name += "fins+";
  }
  if (!T.empty() && r.below(5) == 0) {  // bow-tie: a face sharing exactly one vertex
    uint32_t v = T[r.below(T.size())][r.below(3)];
    t.coord.push_back({2, 2, 2}); t.coord.push_back({2, 2.5f, 2});
    T.push_back({v, t.nverts, t.nverts + 1});
    t.nverts += 2;
    t.name += "bowtie+";
  }
  if (!T.empty() && r.below(5) == 0) {  // duplicated faces (same or rotated)
    int k = 1 + r.below(3);
    for (int i = 0; i < k; ++i) { auto f = T[r.below(T.size())]; if (r.below(2)) f = {f[1], f[2], f[0]}; T.insert(T.begin() + r.below(T.size() + 1), f); }
    t.name += "dup+";
  }
  if (!T.empty() && r.below(5) == 0) {  // flipped (mirrored) faces: flip in place or add mirrored copy
    int k = 1 + r.below(3);
    for (int i = 0; i < k; ++i) { size_t j = r.below(T.size()); auto f = T[j]; std::swap(f[1], f[2]); if (r.below(2)) T[j] = f; else T.push_back(f); }
    t.name += "flip+";
  }
  if (!T.empty() && r.below(5) == 0) {  // degenerate faces by vertex id
    int k = 1 + r.below(3);
    for (int i = 0; i < k; ++i) { auto f = T[r.below(T.size())]; int m = r.below(3); if (m == 0) f[1] = f[0]; else if (m == 1) f[2] = f[1]; else f[1] = f[2] = f[0]; T.insert(T.begin() + r.below(T.size() + 1), f); }
    t.name += "degen+";
  }
  if (r.below(3) == 0) {  // shuffle face order
    for (size_t i = T.size(); i > 1; --i) std::swap(T[i - 1], T[r.below(i)]);
    t.name += "shuffle+";
  }
  if (r.below(3) == 0) {  // rotate corners
    for (auto &f : T) { int k = r.below(3); for (int i = 0; i < k; ++i) f = {f[1], f[2], f[0]}; }
  }
  return t;
}

// ---------------------------------------------------------------------------------
// Attribute layout on top of a topology.
struct AttrPlan {
  GeometryAttribute::Type type;
  DataType dt;
  int nc;
  bool normalized;
  int elem;           // 0 vertex, 1 corner (seams), 2 face
  double seam_prob;   // for corner attributes
  int style;          // value style, see FillValues
};

inline void PutF(uint8_t *p, float f) { memcpy(p, &f, 4); }

// Value styles: 0 smooth function of the vertex coordinate, 1 random in box, 2 constant,
// 3 few distinct values, 4 type-boundary values (ints) / huge+tiny magnitudes (floats), 5 random bits (ints).
inline void FillValue(Rng &r, const AttrPlan &pl, const std::array<float, 3> &c, float scale, float offset, uint8_t *out, bool narrow_int32 = false) {
  const int len = TypeBytes(pl.dt);
  for (int k = 0; k < pl.nc; ++k) {
    double base = c[k % 3] * (1 + 0.1 * (k / 3));
    if (pl.dt == draco::DT_FLOAT32) {
      float v;
      switch (pl.style) {
        case 0: v = static_cast<float>(base * scale + offset); break;
        case 1: v = static_cast<float>(r.uniform(-1, 1) * scale + offset); break;
        case 2: v = offset; break;
        case 3: v = static_cast<float>(static_cast<int>(r.below(4)) * 0.25 * scale + offset); break;
        case 4: { const float ex[] = {0.f, -0.f, 1e-30f, -1e-30f, 1e30f, -1e30f, 1.f, 16777216.f, 1e-6f}; v = ex[r.below(9)]; break; }
        default: v = static_cast<float>(r.gauss() * scale + offset); break;
      }
      PutF(out + 4 * k, v);
    } else {
      int64_t lo, hi;
      switch (pl.dt) {
        case draco::DT_INT8: lo = -128; hi = 127; break;
        case draco::DT_UINT8: lo = 0; hi = 255; break;
        case draco::DT_INT16: lo = -32768; hi = 32767; break;
        case draco::DT_UINT16: lo = 0; hi = 65535; break;
        case draco::DT_INT32: lo = INT32_MIN; hi = INT32_MAX; break;
        default: lo = 0; hi = 0xffffffffll; break;
      }
      int64_t v;
      switch (pl.style) {
        case 0: v = static_cast<int64_t>(std::llround(base * 50)); break;
        case 1: v = r.range(-1000, 1000); break;
        case 2: v = 7; break;
        case 3: v = static_cast<int64_t>(r.below(4)); break;
        case 4: { const int64_t ex[] = {lo, lo + 1, hi, hi - 1, 0, -1, 1, lo / 2, hi / 2}; v = ex[r.below(9)]; break; }
        default: v = static_cast<int64_t>(r.next() >> r.below(64)); if (r.below(2)) v = -v; break;
      }
      // Keep the value inside the data type. For (u)int32 also inside what the portable int32
      // image can hold (values above INT32_MAX are outside the property's domain; the encoder refuses them).
      if (pl.dt == draco::DT_UINT32 && pl.style != 4) hi = INT32_MAX;
      if (narrow_int32 && (pl.dt == draco::DT_UINT32 || pl.dt == draco::DT_INT32)) { hi = (1 << 29); lo = pl.dt == draco::DT_INT32 ? -(1 << 29) : 0; }
      if (v < lo) v = lo + ((lo - v) % (hi - lo + 1));
      if (v > hi) v = lo + (v - lo) % (hi - lo + 1);
      memcpy(out + len * k, &v, len);  // little endian
    }
  }
}

struct GenParams {
  int size_class = 2;
  bool point_cloud = false;
  int max_extra_atts = 4;
  bool float_pos = true;          // force float32 x3 POSITION
  bool allow_int_pos = true;
  bool allow_unused = true;       // isolated points / unused entries
  bool allow_special_floats = true;  // style 4 for unquantized floats
  int pos_style = -1;             // -1 random
  bool narrow_int32 = false;      // keep (u)int32 values within +-2^29 (range < 2^31-1)
};

inline AttrPlan RandomPlan(Rng &r, const GenParams &gp, bool is_pos) {
  AttrPlan p;
  static const DataType ints[] = {draco::DT_INT8, draco::DT_UINT8, draco::DT_INT16, draco::DT_UINT16, draco::DT_INT32, draco::DT_UINT32};
  if (is_pos) {
    p.type = GeometryAttribute::POSITION;
    p.nc = 3;
    p.dt = (gp.float_pos || !gp.allow_int_pos || r.below(5) != 0) ? draco::DT_FLOAT32 : ints[r.below(6)];
    p.normalized = false;
    p.elem = 0;
    p.seam_prob = 0;
    p.style = gp.pos_style >= 0 ? gp.pos_style : (r.below(4) == 0 ? 1 : 0);
    return p;
  }
  static const GeometryAttribute::Type types[] = {GeometryAttribute::NORMAL, GeometryAttribute::COLOR, GeometryAttribute::TEX_COORD, GeometryAttribute::GENERIC};
  p.type = types[r.below(4)];
  switch (p.type) {
    case GeometryAttribute::NORMAL: p.nc = r.below(8) == 0 ? static_cast<int>(r.range(1, 4)) : 3; p.dt = r.below(6) == 0 ? ints[r.below(6)] : draco::DT_FLOAT32; break;
    case GeometryAttribute::COLOR: p.nc = static_cast<int>(r.range(1, 4)); p.dt = r.below(3) == 0 ? draco::DT_FLOAT32 : (r.below(3) ? draco::DT_UINT8 : ints[r.below(6)]); break;
    case GeometryAttribute::TEX_COORD: p.nc = r.below(6) == 0 ? static_cast<int>(r.range(1, 4)) : 2; p.dt = r.below(5) == 0 ? ints[r.below(6)] : draco::DT_FLOAT32; break;
    default: p.nc = static_cast<int>(r.range(1, 8)); p.dt = r.below(3) == 0 ? draco::DT_FLOAT32 : ints[r.below(6)]; break;
  }
  p.normalized = r.below(4) == 0;
  int e = r.below(10);
  p.elem = e < 4 ? 0 : e < 9 ? 1 : 2;
  const double sp[] = {0.0, 0.05, 0.5, 1.0};
  p.seam_prob = sp[r.below(4)];
  p.style = static_cast<int>(r.below(6));
  if (p.dt == draco::DT_FLOAT32 && p.style == 4 && !gp.allow_special_floats) p.style = 1;
  return p;
}

// Builds a Geo from a topology and attribute plans. Points = distinct tuples of
// (vertex, per-attribute value index) over the corners (or one point per corner = soup).
inline Geo BuildGeo(Rng &r, const Topo &t, const std::vector<AttrPlan> &plans, const GenParams &gp) {
  Geo g;
  g.is_mesh = !gp.point_cloud;
  g.family = t.name;
  const size_t nf = t.tris.size();
  const size_t na = plans.size();
  // Per attribute: per-corner value index.
  std::vector<std::vector<uint32_t>> cval(na, std::vector<uint32_t>(nf * 3));
  std::vector<size_t> nvals(na);
  std::vector<std::vector<uint32_t>> val_vertex(na);  // representative vertex of each value (for smooth styles)
  for (size_t a = 0; a < na; ++a) {
    const AttrPlan &pl = plans[a];
    if (pl.elem == 0 || gp.point_cloud) {
      nvals[a] = t.nverts;
      val_vertex[a].resize(t.nverts);
      for (uint32_t v = 0; v < t.nverts; ++v) val_vertex[a][v] = v;
      for (size_t f = 0; f < nf; ++f) for (int j = 0; j < 3; ++j) cval[a][3 * f + j] = t.tris[f][j];
    } else if (pl.elem == 2) {
      nvals[a] = nf;
      val_vertex[a].resize(nf);
      for (size_t f = 0; f < nf; ++f) { val_vertex[a][f] = t.tris[f][0]; for (int j = 0; j < 3; ++j) cval[a][3 * f + j] = static_cast<uint32_t>(f); }
    } else {
      // corner attribute: corners of one vertex share a value unless a seam is drawn
      std::vector<std::vector<uint32_t>> per_vertex(t.nverts);
      for (size_t f = 0; f < nf; ++f) for (int j = 0; j < 3; ++j) {
        uint32_t v = t.tris[f][j];
        uint32_t id;
        if (per_vertex[v].empty() || r.chance(pl.seam_prob)) { id = static_cast<uint32_t>(val_vertex[a].size()); val_vertex[a].push_back(v); per_vertex[v].push_back(id); }
        else id = per_vertex[v][r.below(per_vertex[v].size())];
        cval[a][3 * f + j] = id;
      }
      nvals[a] = val_vertex[a].size();
    }
  }
  // Points.
  std::vector<uint32_t> corner_point(nf * 3);
  std::vector<std::vector<uint32_t>> point_val(na);
  const bool soup = !gp.point_cloud && r.below(12) == 0;       // one point per corner
  const bool dup_points = !gp.point_cloud && r.below(10) == 0;   // sometimes do not merge identical tuples
  if (gp.point_cloud) {
    g.npoints = t.nverts;
    for (size_t a = 0; a < na; ++a) { point_val[a].resize(t.nverts); for (uint32_t v = 0; v < t.nverts; ++v) point_val[a][v] = v; }
  } else {
    std::map<std::vector<uint32_t>, uint32_t> tuple_to_point;
    std::vector<uint32_t> key(na);
    for (size_t c = 0; c < nf * 3; ++c) {
      for (size_t a = 0; a < na; ++a) key[a] = cval[a][c];
      uint32_t pid;
      auto it = tuple_to_point.find(key);
      if (soup || it == tuple_to_point.end() || (dup_points && r.below(4) == 0)) {
        pid = g.npoints++;
        tuple_to_point[key] = pid;
        for (size_t a = 0; a < na; ++a) point_val[a].push_back(key[a]);
      } else pid = it->second;
      corner_point[c] = pid;
    }
    for (size_t f = 0; f < nf; ++f) g.faces.push_back({corner_point[3 * f], corner_point[3 * f + 1], corner_point[3 * f + 2]});
  }
  // Isolated points (used by no face) and unused attribute entries.
  std::vector<uint32_t> extra_entries(na, 0);
  if (gp.allow_unused && r.below(5) == 0) {
    int k = 1 + r.below(3);
    for (int i = 0; i < k; ++i) {
      ++g.npoints;
      for (size_t a = 0; a < na; ++a) {
        if (nvals[a] == 0 || r.below(2)) { val_vertex[a].push_back(t.nverts ? static_cast<uint32_t>(r.below(t.nverts)) : 0); point_val[a].push_back(static_cast<uint32_t>(nvals[a]++)); }
        else point_val[a].push_back(static_cast<uint32_t>(r.below(nvals[a])));
      }
    }
    g.family += "isolated+";
  }
  if (gp.allow_unused && r.below(6) == 0) {
    for (size_t a = 0; a < na; ++a) if (r.below(2)) { int k = 1 + r.below(3); for (int i = 0; i < k; ++i) { val_vertex[a].push_back(t.nverts ? static_cast<uint32_t>(r.below(t.nverts)) : 0); ++nvals[a]; } }
    g.family += "unused+";
  }
  // Shuffle point ids (so that point order != first-use order).
  std::vector<uint32_t> perm(g.npoints);
  for (uint32_t i = 0; i < g.npoints; ++i) perm[i] = i;
  if (r.below(2)) for (uint32_t i = g.npoints; i > 1; --i) std::swap(perm[i - 1], perm[r.below(i)]);
  for (auto &f : g.faces) for (auto &x : f) x = perm[x];
  // Attributes.
  uint32_t uid_base = r.below(3) == 0 ? static_cast<uint32_t>(r.below(1u << 20)) : 0;
  std::vector<uint32_t> uids;
  for (size_t a = 0; a < na; ++a) {
    uint32_t u;
    do { u = uid_base + (r.below(3) == 0 ? static_cast<uint32_t>(r.below(1000)) : static_cast<uint32_t>(a)); } while (std::find(uids.begin(), uids.end(), u) != uids.end());
    uids.push_back(u);
  }
  for (size_t a = 0; a < na; ++a) {
    const AttrPlan &pl = plans[a];
    Attr at;
    at.type = pl.type; at.dt = pl.dt; at.nc = pl.nc; at.normalized = pl.normalized; at.elem = pl.elem; at.unique_id = uids[a];
    at.nvals = nvals[a];
    at.data.resize(at.nvals * at.stride());
    float scale = 1.f, offset = 0.f;
    if (pl.dt == draco::DT_FLOAT32) {
      const float scales[] = {1.f, 1e-3f, 100.f, 1e4f, 0.01f};
      scale = scales[r.below(5)];
      if (r.below(3) == 0) offset = static_cast<float>(r.uniform(-1, 1) * 1000 * scale);
    }
    Rng vr = r.fork();
    for (size_t i = 0; i < at.nvals; ++i) {
      std::array<float, 3> c = {0, 0, 0};
      if (i < val_vertex[a].size() && val_vertex[a][i] < t.coord.size()) c = t.coord[val_vertex[a][i]];
      FillValue(vr, pl, c, scale, offset, at.val(i), gp.narrow_int32);
    }
    // duplicate-valued entries: copy one entry's bytes onto another (distinct entries, same value)
    if (at.nvals >= 2 && r.below(6) == 0) { size_t i = r.below(at.nvals), j = r.below(at.nvals); memcpy(at.val(i), at.val(j), at.stride()); }
    // point map
    bool identity = true;
    at.point_to_val.resize(g.npoints);
    for (uint32_t p = 0; p < g.npoints; ++p) at.point_to_val[perm[p]] = point_val[a][p];
    for (uint32_t p = 0; p < g.npoints; ++p) if (at.point_to_val[p] != p) identity = false;
    if (identity && at.nvals == g.npoints && r.below(2)) at.point_to_val.clear();
    g.atts.push_back(std::move(at));
  }
  return g;
}

inline Geo GenGeo(Rng &r, const GenParams &gp, std::vector<AttrPlan> *plans_out = nullptr) {
  Topo t;
  bool compressible = false;
  if (gp.point_cloud) {
    int n = gp.size_class == 0 ? 0 : gp.size_class == 1 ? 1 : gp.size_class == 2 ? 2 + r.below(38) : gp.size_class == 3 ? 40 + r.below(400) : 440 + r.below(4000);
    // Highly compressible clouds: many points, every attribute constant or over a handful of values, so that the
    // stream is (much) shorter than one byte per point.
    compressible = n >= 40 && r.below(6) == 0;
    if (compressible) n *= 1 + static_cast<int>(r.below(4));
    t.nverts = n;
    t.name = compressible ? "points-compressible" : "points";
    int mode = r.below(3);
    for (int i = 0; i < n; ++i) {
      if (mode == 0) t.coord.push_back({static_cast<float>(r.uniform(-1, 1)), static_cast<float>(r.uniform(-1, 1)), static_cast<float>(r.uniform(-1, 1))});
      else if (mode == 1) { float a = 0.1f * i; t.coord.push_back({std::cos(a) * (1 + 0.01f * i), std::sin(a) * (1 + 0.01f * i), 0.02f * i}); }
      else t.coord.push_back({static_cast<float>(i % 17), static_cast<float>((i / 17) % 13), static_cast<float>(i / 221)});
    }
  } else {
    t = GenTopo(r, gp.size_class);
  }
  std::vector<AttrPlan> plans;
  plans.push_back(RandomPlan(r, gp, true));
  int extra = gp.max_extra_atts > 0 ? static_cast<int>(r.below(gp.max_extra_atts + 1)) : 0;
  for (int i = 0; i < extra; ++i) plans.push_back(RandomPlan(r, gp, false));
  if (compressible) for (auto &pl : plans) pl.style = r.below(2) ? 2 : 3;
  // POSITION is not always attribute 0.
  size_t pos_index = 0;
  if (plans.size() > 1 && r.below(4) == 0) { pos_index = r.below(plans.size()); std::swap(plans[0], plans[pos_index]); }
  Geo g = BuildGeo(r, t, plans, gp);
  g.pos_att = static_cast<int>(pos_index);
  if (plans_out) *plans_out = plans;
  return g;
}

}  // namespace vf
#endif
