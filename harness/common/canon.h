// Canonical form of "what a geometry describes" (DESIGN §4.3), reference quantizer (§4.4)
// and structural validity predicate (C03). Uses public accessors of the Draco objects only.
#ifndef VERIF_CANON_H_
#define VERIF_CANON_H_
#include <algorithm>
#include <cmath>
#include <cstring>
#include <functional>
#include <map>
#include <string>
#include <vector>

#include "common/types.h"
#include "common/rng.h"
#include "draco/attributes/attribute_transform_data.h"
#include "draco/mesh/mesh.h"
#include "draco/metadata/geometry_metadata.h"
#include "draco/point_cloud/point_cloud.h"

namespace vf {

struct AttDesc {
  uint32_t uid;
  int type, dt, nc;
  bool normalized;
  int att_id;
  bool operator==(const AttDesc &o) const { return uid == o.uid && type == o.type && dt == o.dt && nc == o.nc && normalized == o.normalized; }
};

// Value transform applied while reading the *input* side (e.g. reference quantization):
// (att_id, num value entry index, in bytes, out bytes). Null => identity.
typedef std::function<void(int att_id, uint32_t value_index, const uint8_t *in, uint8_t *out)> ValueXform;

struct Canon {
  std::vector<AttDesc> atts;            // sorted by unique id
  bool duplicate_uids = false;
  size_t rec = 0;                       // bytes per corner/point record
  std::vector<std::string> tris;        // rotation-canonical, in face order
  std::vector<char> tri_degenerate;     // uses one POSITION entry twice
  std::vector<std::string> points;      // record of every point, in point order
  std::vector<char> point_used;         // referenced by some face
};

inline std::string PointRecord(const draco::PointCloud &pc, const std::vector<AttDesc> &atts, uint32_t p, const ValueXform &xf) {
  std::string rec;
  uint8_t tmp[256];
  for (auto &d : atts) {
    const draco::PointAttribute *a = pc.attribute(d.att_id);
    const draco::AttributeValueIndex vi = a->mapped_index(draco::PointIndex(p));
    const int n = d.nc * vf::TypeBytes(static_cast<draco::DataType>(d.dt));
    const uint8_t *src = a->GetAddress(vi);
    if (xf) { xf(d.att_id, vi.value(), src, tmp); rec.append(reinterpret_cast<const char *>(tmp), n); }
    else rec.append(reinterpret_cast<const char *>(src), n);
  }
  return rec;
}

// only_uid >= 0 restricts the records to the attribute with that unique id (used to localise a mismatch).
inline Canon MakeCanon(const draco::PointCloud &pc, const draco::Mesh *mesh, const ValueXform &xf = nullptr, int64_t only_uid = -1) {
  Canon c;
  for (int i = 0; i < pc.num_attributes(); ++i) {
    const draco::PointAttribute *a = pc.attribute(i);
    if (only_uid >= 0 && a->unique_id() != static_cast<uint32_t>(only_uid)) continue;
    c.atts.push_back({a->unique_id(), static_cast<int>(a->attribute_type()), static_cast<int>(a->data_type()), a->num_components(), a->normalized(), i});
  }
  std::stable_sort(c.atts.begin(), c.atts.end(), [](const AttDesc &x, const AttDesc &y) { return x.uid < y.uid; });
  for (size_t i = 1; i < c.atts.size(); ++i) if (c.atts[i].uid == c.atts[i - 1].uid) c.duplicate_uids = true;
  for (auto &d : c.atts) c.rec += d.nc * vf::TypeBytes(static_cast<draco::DataType>(d.dt));
  const uint32_t np = pc.num_points();
  c.points.reserve(np);
  for (uint32_t p = 0; p < np; ++p) c.points.push_back(PointRecord(pc, c.atts, p, xf));
  c.point_used.assign(np, 0);
  if (mesh) {
    const draco::PointAttribute *pos = mesh->GetNamedAttribute(draco::GeometryAttribute::POSITION);
    for (uint32_t f = 0; f < mesh->num_faces(); ++f) {
      const auto &face = mesh->face(draco::FaceIndex(f));
      const std::string *r[3];
      for (int j = 0; j < 3; ++j) { r[j] = &c.points[face[j].value()]; c.point_used[face[j].value()] = 1; }
      int first = 0;
      for (int j = 1; j < 3; ++j) if (*r[j] < *r[first]) first = j;
      // ties: choose the rotation giving the smallest concatenation
      std::string best;
      for (int s = 0; s < 3; ++s) {
        if (*r[s] != *r[first]) continue;
        std::string cat = *r[s] + *r[(s + 1) % 3] + *r[(s + 2) % 3];
        if (best.empty() || cat < best) best.swap(cat);
      }
      c.tris.push_back(best);
      bool deg = false;
      if (pos) {
        uint32_t a = pos->mapped_index(face[0]).value(), b = pos->mapped_index(face[1]).value(), d = pos->mapped_index(face[2]).value();
        deg = (a == b || a == d || b == d);
      }
      c.tri_degenerate.push_back(deg);
    }
  }
  return c;
}

// Compares attribute sets. Returns empty string if equal.
inline std::string CompareAttSets(const Canon &in, const Canon &out) {
  if (in.atts.size() != out.atts.size()) return "attribute-count " + std::to_string(in.atts.size()) + " vs " + std::to_string(out.atts.size());
  for (size_t i = 0; i < in.atts.size(); ++i) {
    if (!(in.atts[i] == out.atts[i])) {
      char b[200];
      snprintf(b, sizeof b, "attribute uid %u (type %d dt %d nc %d norm %d) vs uid %u (type %d dt %d nc %d norm %d)", in.atts[i].uid, in.atts[i].type, in.atts[i].dt,
               in.atts[i].nc, in.atts[i].normalized, out.atts[i].uid, out.atts[i].type, out.atts[i].dt, out.atts[i].nc, out.atts[i].normalized);
      return b;
    }
  }
  return "";
}

inline std::string HexOf(const std::string &s, size_t max = 96) {
  static const char *d = "0123456789abcdef";
  std::string o;
  for (size_t i = 0; i < s.size() && i < max; ++i) { o += d[(unsigned char)s[i] >> 4]; o += d[(unsigned char)s[i] & 15]; }
  return o;
}

// Ordered comparison (sequential methods). Returns "" if equal, else clause/detail.
inline std::string CompareOrdered(const Canon &in, const Canon &out) {
  if (in.points.size() != out.points.size()) return "point-count " + std::to_string(in.points.size()) + " vs " + std::to_string(out.points.size());
  for (size_t i = 0; i < in.points.size(); ++i) if (in.points[i] != out.points[i]) return "point-value at point " + std::to_string(i) + " want " + HexOf(in.points[i]) + " got " + HexOf(out.points[i]);
  if (in.tris.size() != out.tris.size()) return "face-count " + std::to_string(in.tris.size()) + " vs " + std::to_string(out.tris.size());
  for (size_t i = 0; i < in.tris.size(); ++i) if (in.tris[i] != out.tris[i]) return "face " + std::to_string(i) + " differs";
  return "";
}

// Multiset comparison for point clouds (kd-tree).
inline std::string ComparePointMultiset(const Canon &in, const Canon &out) {
  if (in.points.size() != out.points.size()) return "point-count " + std::to_string(in.points.size()) + " vs " + std::to_string(out.points.size());
  std::vector<std::string> a(in.points), b(out.points);
  std::sort(a.begin(), a.end());
  std::sort(b.begin(), b.end());
  for (size_t i = 0; i < a.size(); ++i) if (a[i] != b[i]) return "point-multiset differs at sorted position " + std::to_string(i) + " want " + HexOf(a[i]) + " got " + HexOf(b[i]);
  return "";
}

// Multiset comparison for Edgebreaker: decoded triangles must be a sub-multiset of the
// input's; what is missing must be explained by triangles using one position entry twice;
// decoded loose points must be a sub-multiset of the input's loose points.
inline std::string CompareEdgebreaker(const Canon &in, const Canon &out, int64_t *omitted_degenerate, int64_t *omitted_loose) {
  std::map<std::string, std::pair<int64_t, int64_t>> cnt;  // record -> (count in input, degenerate among them)
  for (size_t i = 0; i < in.tris.size(); ++i) { auto &e = cnt[in.tris[i]]; e.first++; if (in.tri_degenerate[i]) e.second++; }
  std::map<std::string, int64_t> dc;
  for (auto &t : out.tris) dc[t]++;
  for (auto &kv : dc) {
    auto it = cnt.find(kv.first);
    if (it == cnt.end()) return "decoded triangle not in input: " + HexOf(kv.first);
    if (kv.second > it->second.first) return "decoded triangle multiplicity " + std::to_string(kv.second) + " > input " + std::to_string(it->second.first);
  }
  *omitted_degenerate = 0;
  for (auto &kv : cnt) {
    int64_t have = 0;
    auto it = dc.find(kv.first);
    if (it != dc.end()) have = it->second;
    int64_t missing = kv.second.first - have;
    if (missing > kv.second.second) return "input triangle missing from decoded (" + std::to_string(missing) + " missing, " + std::to_string(kv.second.second) + " degenerate): " + HexOf(kv.first);
    *omitted_degenerate += missing;
  }
  // Points: every decoded point must be used; every input used point record must appear... (covered by triangles).
  std::map<std::string, int64_t> loose_in;
  for (size_t i = 0; i < in.points.size(); ++i) if (!in.point_used[i]) loose_in[in.points[i]]++;
  int64_t loose_out = 0;
  for (size_t i = 0; i < out.points.size(); ++i) if (!out.point_used[i]) {
    auto it = loose_in.find(out.points[i]);
    if (it == loose_in.end() || it->second == 0) return "decoded point used by no triangle that is not an input loose point";
    it->second--;
    ++loose_out;
  }
  int64_t li = 0;
  for (size_t i = 0; i < in.points.size(); ++i) if (!in.point_used[i]) ++li;
  *omitted_loose = li - loose_out;
  return "";
}

// ---------------------------------------------------------------------------------
// Reference uniform quantizer (independent re-statement of the declared transform).
struct RefQuant {
  int bits = 0;
  int nc = 0;
  std::vector<float> mins;
  float range = 1.f;
  // Parameters from all entries of a float attribute.
  static bool FromValues(const float *vals, size_t nvals, int nc, int bits, RefQuant *q) {
    q->bits = bits; q->nc = nc; q->mins.assign(nc, 0.f);
    if (nvals == 0) return false;
    std::vector<float> mx(nc);
    for (int c = 0; c < nc; ++c) { q->mins[c] = vals[c]; mx[c] = vals[c]; }
    for (size_t i = 1; i < nvals; ++i) for (int c = 0; c < nc; ++c) {
      float v = vals[i * nc + c];
      if (std::isnan(v)) return false;
      if (q->mins[c] > v) q->mins[c] = v;
      if (mx[c] < v) mx[c] = v;
    }
    q->range = 0.f;
    for (int c = 0; c < nc; ++c) {
      if (std::isnan(q->mins[c]) || std::isinf(q->mins[c]) || std::isnan(mx[c]) || std::isinf(mx[c])) return false;
      const float dif = mx[c] - q->mins[c];
      if (dif > q->range) q->range = dif;
    }
    if (q->range == 0.f) q->range = 1.f;
    return true;
  }
  int32_t Quantize(float x, int c) const {
    const int32_t maxq = static_cast<int32_t>((1u << bits) - 1);
    volatile float inv = static_cast<float>(maxq) / range;
    volatile float v = x - mins[c];
    volatile float s = v * inv;
    volatile float h = s + 0.5f;
    return static_cast<int32_t>(std::floor(h));
  }
  float Dequantize(int32_t q, int c) const {
    const int32_t maxq = static_cast<int32_t>((1u << bits) - 1);
    volatile float delta = range / static_cast<float>(maxq);
    volatile float v = static_cast<float>(q) * delta;
    volatile float o = v + mins[c];
    return o;
  }
  float Apply(float x, int c) const { return Dequantize(Quantize(x, c), c); }
};

// ---------------------------------------------------------------------------------
// Structural validity (C03). Returns "" if valid, else the violated clause.
inline std::string CheckStructure(const draco::PointCloud &pc, const draco::Mesh *mesh) {
  const uint32_t np = pc.num_points();
  if (mesh) {
    for (uint32_t f = 0; f < mesh->num_faces(); ++f) {
      const auto &face = mesh->face(draco::FaceIndex(f));
      for (int j = 0; j < 3; ++j) if (face[j].value() >= np) return "face-index>=num_points (face " + std::to_string(f) + " index " + std::to_string(face[j].value()) + " num_points " + std::to_string(np) + ")";
    }
  }
  for (int i = 0; i < pc.num_attributes(); ++i) {
    const draco::PointAttribute *a = pc.attribute(i);
    if (!a) return "null-attribute";
    if (a->num_components() == 0) return "num-components-0";
    if (a->data_type() <= draco::DT_INVALID || a->data_type() >= draco::DT_TYPES_COUNT) return "invalid-data-type";
    const int64_t elem = static_cast<int64_t>(a->num_components()) * vf::TypeBytes(a->data_type());
    if (a->byte_stride() < elem) return "byte-stride<component-bytes";
    if (!a->buffer()) { if (a->size() > 0) return "no-buffer"; continue; }
    const int64_t need = static_cast<int64_t>(a->byte_offset()) + static_cast<int64_t>(a->size()) * a->byte_stride();
    if (a->size() > 0 && static_cast<int64_t>(a->buffer()->data_size()) < need - (a->byte_stride() - elem)) return "buffer-too-small (att " + std::to_string(i) + " size " + std::to_string(a->size()) + " stride " + std::to_string(a->byte_stride()) + " buffer " + std::to_string(a->buffer()->data_size()) + ")";
    if (!a->is_mapping_identity()) {
      if (a->indices_map_size() != np) return "point-map-size!=num_points (att " + std::to_string(i) + " map " + std::to_string(a->indices_map_size()) + " points " + std::to_string(np) + ")";
    }
    for (uint32_t p = 0; p < np; ++p) {
      const uint32_t v = a->mapped_index(draco::PointIndex(p)).value();
      if (v >= a->size()) return "point-maps-to-missing-value (att " + std::to_string(i) + " point " + std::to_string(p) + " value " + std::to_string(v) + " size " + std::to_string(a->size()) + ")";
    }
  }
  return "";
}

// Reads every face and every point's value in every attribute through the public accessors
// (the "any public accessor" clause of C03; meaningful under ASan). Returns a checksum.
inline uint64_t ReadEverything(const draco::PointCloud &pc, const draco::Mesh *mesh) {
  uint64_t h = 1469598103934665603ull;
  if (mesh) for (uint32_t f = 0; f < mesh->num_faces(); ++f) { const auto &face = mesh->face(draco::FaceIndex(f)); for (int j = 0; j < 3; ++j) h = h * 1099511628211ull ^ face[j].value(); }
  std::vector<uint8_t> buf;
  for (int i = 0; i < pc.num_attributes(); ++i) {
    const draco::PointAttribute *a = pc.attribute(i);
    buf.resize(std::max<size_t>(64, static_cast<size_t>(a->byte_stride()) + 64));
    std::vector<float> fv(a->num_components());
    // Attached transform description: read every parameter its type declares (no size accessor
    // exists; under ASan a too-short parameter buffer is reported here).
    if (const draco::AttributeTransformData *td = a->GetAttributeTransformData()) {
      if (td->transform_type() == draco::ATTRIBUTE_QUANTIZATION_TRANSFORM) {
        h ^= static_cast<uint64_t>(td->GetParameterValue<int32_t>(0));
        for (int c = 0; c <= a->num_components(); ++c) { float f = td->GetParameterValue<float>(4 + 4 * c); uint32_t u; memcpy(&u, &f, 4); h = h * 31 + u; }
      } else if (td->transform_type() == draco::ATTRIBUTE_OCTAHEDRON_TRANSFORM) {
        h ^= static_cast<uint64_t>(td->GetParameterValue<int32_t>(0));
      }
    }
    for (uint32_t p = 0; p < pc.num_points(); ++p) {
      a->GetMappedValue(draco::PointIndex(p), buf.data());
      h = HashBytes(buf.data(), static_cast<size_t>(a->num_components()) * vf::TypeBytes(a->data_type()), h);
      const draco::AttributeValueIndex vi = a->mapped_index(draco::PointIndex(p));
      a->GetValue(vi, buf.data());
      if (a->ConvertValue<float>(vi, fv.data())) { uint32_t u; memcpy(&u, &fv[0], 4); h ^= u; }
    }
  }
  return h;
}

inline void MixMetadata(const draco::Metadata &m, const std::function<void(const void *, size_t)> &mix) {
  uint32_t n = static_cast<uint32_t>(m.entries().size());
  mix(&n, 4);
  for (auto &e : m.entries()) { uint32_t l = e.first.size(); mix(&l, 4); mix(e.first.data(), l); l = e.second.data().size(); mix(&l, 4); if (l) mix(e.second.data().data(), l); }
  n = static_cast<uint32_t>(m.sub_metadatas().size());
  mix(&n, 4);
  for (auto &sm : m.sub_metadatas()) { uint32_t l = sm.first.size(); mix(&l, 4); mix(sm.first.data(), l); MixMetadata(*sm.second, mix); }
}

// Ordered 128-bit digest of a decoded geometry (C05/C06).
inline std::pair<uint64_t, uint64_t> OrderedDigest(const draco::PointCloud &pc, const draco::Mesh *mesh) {
  uint64_t h1 = 0x1234567, h2 = 0x89abcdef;
  auto mix = [&](const void *p, size_t n) { h1 = HashBytes(p, n, h1); h2 = HashBytes(p, n, h2 * 0x9e3779b97f4a7c15ull + 1); };
  uint32_t np = pc.num_points(), na = pc.num_attributes();
  mix(&np, 4); mix(&na, 4);
  if (mesh) { uint32_t nf = mesh->num_faces(); mix(&nf, 4); for (uint32_t f = 0; f < nf; ++f) { const auto &face = mesh->face(draco::FaceIndex(f)); uint32_t v[3] = {face[0].value(), face[1].value(), face[2].value()}; mix(v, 12); } }
  for (uint32_t i = 0; i < na; ++i) {
    const draco::PointAttribute *a = pc.attribute(i);
    uint32_t d[5] = {a->unique_id(), static_cast<uint32_t>(a->attribute_type()), static_cast<uint32_t>(a->data_type()), static_cast<uint32_t>(a->num_components()), a->normalized() ? 1u : 0u};
    mix(d, sizeof d);
    const size_t n = static_cast<size_t>(a->num_components()) * vf::TypeBytes(a->data_type());
    for (uint32_t p = 0; p < np; ++p) mix(a->GetAddress(a->mapped_index(draco::PointIndex(p))), n);
  }
  if (const draco::GeometryMetadata *gm = pc.GetMetadata()) {
    uint32_t tag = 0x4d455441, n = static_cast<uint32_t>(gm->attribute_metadatas().size());
    mix(&tag, 4); mix(&n, 4);
    for (auto &am : gm->attribute_metadatas()) { uint32_t id = am->att_unique_id(); mix(&id, 4); MixMetadata(*am, mix); }
    MixMetadata(*gm, mix);
  }
  return {h1, h2};
}

}  // namespace vf
#endif
