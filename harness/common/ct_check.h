// Independent invariant checker for draco::CornerTable (C13), run at the quiescent
// point after construction. Returns nullptr if consistent, else a static clause name.
#ifndef VERIF_CT_CHECK_H_
#define VERIF_CT_CHECK_H_
#include <array>
#include <string>
#include <vector>

#include "draco/mesh/corner_table.h"

namespace vf {

struct CtScratch {
  std::vector<int> expect_cnt;     // per vertex: corners of non-degenerate faces mapped to it
  std::vector<int> seen_cnt;
  std::vector<char> corner_seen;
};

// faces: the input list (ids as given to Create()).
inline const char *CheckCornerTable(const draco::CornerTable &ct,
                                    const std::vector<std::array<uint32_t, 3>> &faces,
                                    CtScratch &s, std::string *detail) {
  using namespace draco;
  const int nf = static_cast<int>(faces.size());
  if (ct.num_faces() != nf) return "num-faces";
  const int nc = ct.num_corners();
  if (nc != 3 * nf) return "num-corners";
  const int nv = ct.num_vertices();
  uint32_t max_id = 0;
  int ndeg = 0;
  std::vector<char> deg(nf, 0);
  for (int f = 0; f < nf; ++f) {
    for (int j = 0; j < 3; ++j) max_id = std::max(max_id, faces[f][j]);
    if (faces[f][0] == faces[f][1] || faces[f][0] == faces[f][2] || faces[f][1] == faces[f][2]) { deg[f] = 1; ++ndeg; }
  }
  const int norig = static_cast<int>(max_id) + 1;
  if (ct.NumOriginalVertices() != norig) return "num-original-vertices";
  if (nv < norig) return "num-vertices<original";
  if (ct.NumDegeneratedFaces() != ndeg) return "num-degenerated-faces";
  for (int f = 0; f < nf; ++f) {
    if (ct.IsDegenerated(FaceIndex(f)) != (deg[f] != 0)) { *detail = "face " + std::to_string(f); return "is-degenerated"; }
  }
  s.expect_cnt.assign(nv, 0);
  s.seen_cnt.assign(nv, 0);
  s.corner_seen.assign(nc, 0);
  for (int ci = 0; ci < nc; ++ci) {
    const CornerIndex c(ci);
    const int f = ci / 3;
    const VertexIndex v = ct.Vertex(c);
    if (v == kInvalidVertexIndex || v.value() >= static_cast<uint32_t>(nv)) { *detail = "corner " + std::to_string(ci); return "vertex-out-of-range"; }
    const CornerIndex o = ct.Opposite(c);
    if (deg[f]) {
      if (o != kInvalidCornerIndex) { *detail = "corner " + std::to_string(ci); return "degenerate-face-linked"; }
      continue;
    }
    // vertex-parent relation reproduces the input id
    if (ct.VertexParent(v).value() != faces[f][ci % 3]) {
      *detail = "corner " + std::to_string(ci) + " vertex " + std::to_string(v.value()) + " parent " + std::to_string(ct.VertexParent(v).value()) + " input " + std::to_string(faces[f][ci % 3]);
      return "vertex-parent";
    }
    s.expect_cnt[v.value()]++;
    if (o == kInvalidCornerIndex) continue;
    if (o.value() >= static_cast<uint32_t>(nc)) return "opposite-out-of-range";
    if (ct.Opposite(o) != c) { *detail = "corner " + std::to_string(ci) + " opp " + std::to_string(o.value()); return "opposite-not-symmetric"; }
    const int fo = o.value() / 3;
    if (fo == f) return "opposite-same-face";
    if (deg[fo]) return "opposite-into-degenerate-face";
    // shared edge, opposite orientation: in input ids ...
    const uint32_t a = faces[f][(ci + 1) % 3], b = faces[f][(ci + 2) % 3];
    const uint32_t oa = faces[fo][(o.value() + 1) % 3], ob = faces[fo][(o.value() + 2) % 3];
    if (a != ob || b != oa) { *detail = "corner " + std::to_string(ci) + " opp " + std::to_string(o.value()); return "opposite-edge-mismatch"; }
    // ... and in the table's own (split) vertex ids
    if (ct.Vertex(ct.Next(c)) != ct.Vertex(ct.Previous(o)) || ct.Vertex(ct.Previous(c)) != ct.Vertex(ct.Next(o))) {
      *detail = "corner " + std::to_string(ci) + " opp " + std::to_string(o.value());
      return "opposite-edge-mismatch-split-ids";
    }
  }
  // Fans.
  int isolated = 0;
  for (int vi = 0; vi < nv; ++vi) {
    const VertexIndex v(vi);
    const CornerIndex lm = ct.LeftMostCorner(v);
    if (lm == kInvalidCornerIndex) {
      if (s.expect_cnt[vi] != 0) { *detail = "vertex " + std::to_string(vi); return "vertex-without-representative"; }
      ++isolated;
      if (vi >= norig) { *detail = "vertex " + std::to_string(vi); return "new-vertex-isolated"; }
      continue;
    }
    if (lm.value() >= static_cast<uint32_t>(nc)) return "leftmost-out-of-range";
    if (ct.Vertex(lm) != v) { *detail = "vertex " + std::to_string(vi); return "leftmost-maps-elsewhere"; }
    int steps = 0;
    CornerIndex c = lm;
    bool closed = false;
    while (c != kInvalidCornerIndex) {
      if (++steps > nc) { *detail = "vertex " + std::to_string(vi); return "fan-walk-does-not-terminate"; }
      if (ct.Vertex(c) != v) { *detail = "vertex " + std::to_string(vi) + " corner " + std::to_string(c.value()); return "fan-leaves-vertex"; }
      if (deg[c.value() / 3]) return "fan-enters-degenerate-face";
      if (s.corner_seen[c.value()]) { *detail = "vertex " + std::to_string(vi); return "fan-revisits-corner"; }
      s.corner_seen[c.value()] = 1;
      s.seen_cnt[vi]++;
      c = ct.SwingRight(c);
      if (c == lm) { closed = true; break; }
    }
    if (!closed && ct.SwingLeft(lm) != kInvalidCornerIndex) { *detail = "vertex " + std::to_string(vi); return "leftmost-not-leftmost"; }
    if (s.seen_cnt[vi] != s.expect_cnt[vi]) {
      *detail = "vertex " + std::to_string(vi) + " fan " + std::to_string(s.seen_cnt[vi]) + " mapped " + std::to_string(s.expect_cnt[vi]);
      return "fan-incomplete";
    }
    if (vi >= norig) {
      const VertexIndex p = ct.VertexParent(v);
      if (p.value() >= static_cast<uint32_t>(norig)) return "parent-not-original";
    }
    if (ct.Valence(v) < 2) { *detail = "vertex " + std::to_string(vi); return "valence"; }
  }
  if (ct.NumIsolatedVertices() != isolated) { *detail = std::to_string(ct.NumIsolatedVertices()) + " vs " + std::to_string(isolated); return "num-isolated-vertices"; }
  return nullptr;
}

}  // namespace vf
#endif
