// Component sizes independent of the code under test.
#ifndef VERIF_TYPES_H_
#define VERIF_TYPES_H_
#include "draco/core/draco_types.h"
namespace vf {
// Size of one component, from the bitstream specification - not from draco::DataTypeLength(), which is part of
// the code under test (the structural validator and the generators must not inherit its mistakes).
inline int TypeBytes(draco::DataType dt) {
  switch (dt) {
    case draco::DT_INT8: case draco::DT_UINT8: case draco::DT_BOOL: return 1;
    case draco::DT_INT16: case draco::DT_UINT16: return 2;
    case draco::DT_INT32: case draco::DT_UINT32: case draco::DT_FLOAT32: return 4;
    case draco::DT_INT64: case draco::DT_UINT64: case draco::DT_FLOAT64: return 8;
    default: return -1;
  }
}
}  // namespace vf
#endif  // VERIF_TYPES_H_
