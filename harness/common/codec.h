// Option generator and encode/decode helpers shared by the round-trip style harnesses.
#ifndef VERIF_CODEC_H_
#define VERIF_CODEC_H_
#include <memory>
#include <string>
#include <vector>

#include "common/types.h"
#include "common/geo.h"
#include "common/rng.h"
#include "draco/compression/config/compression_shared.h"
#include "draco/compression/decode.h"
#include "draco/compression/encode.h"
#include "draco/compression/expert_encode.h"
#include "draco/core/decoder_buffer.h"
#include "draco/core/encoder_buffer.h"

namespace vf {

struct EncOpts {
  bool expert = false;          // ExpertEncoder (per attribute id) vs Encoder (per attribute type)
  int method = -1;              // -1 auto, 0 sequential, 1 Edgebreaker / kd-tree
  int eb_method = -1;           // -1 auto, 0 standard, 2 valence
  int enc_speed = -1, dec_speed = -1;  // -1 = leave default
  std::vector<int> qbits;       // per attribute id; <= 0: not quantized
  std::vector<int> pred;        // per attribute id; -100 = unset
  int builtin = -1;             // -1 unset, 0 off, 1 on (ExpertEncoder only)
  int split_on_seams = -1;      // -1 unset, 0/1
  int compress_connectivity = -1;  // sequential mesh only; outside C01's quantifier (reported separately)
  bool track = true;
  int history = 0;              // basic Encoder only: 1 = the same Encoder object first encodes a tiny mesh, 2 = a tiny point cloud
  // explicit quantization per attribute id (C12): bits>0 and range>0 => used instead of qbits
  struct Explicit { int bits = 0; std::vector<float> origin; float range = 0; };
  std::vector<Explicit> explicit_q;

  std::string Describe() const {
    std::string s = std::string(expert ? "expert" : "basic") + " method=" + std::to_string(method) + " eb=" + std::to_string(eb_method) + " speed=" + std::to_string(enc_speed) + "/" +
                    std::to_string(dec_speed) + " builtin=" + std::to_string(builtin) + " split=" + std::to_string(split_on_seams) + " cc=" + std::to_string(compress_connectivity) + " q=[";
    for (int q : qbits) s += std::to_string(q) + ",";
    s += "] pred=[";
    for (int p : pred) s += std::to_string(p) + ",";
    return s + "]" + (history ? " history=" + std::to_string(history) : std::string());
  }
};

// Effective per-attribute quantization bits as seen by the encoder front end chosen
// (the basic Encoder keys its options by attribute *type*: all attributes of a type share them).
inline int EffectiveQBits(const Geo &g, const EncOpts &o, int att) {
  if (o.expert) return o.qbits[att];
  // basic: the last SetAttributeQuantization call for that type wins; we set in attribute order
  int q = -1;
  for (size_t a = 0; a < g.atts.size(); ++a) if (g.atts[a].type == g.atts[att].type && o.qbits[a] > 0) q = o.qbits[a];
  return q;
}

inline EncOpts GenOpts(Rng &r, const Geo &g, bool allow_quant = true) {
  EncOpts o;
  o.expert = r.below(2) != 0;
  o.method = static_cast<int>(r.range(-1, 1));
  const int ebm[] = {-1, -1, 0, 2};
  o.eb_method = ebm[r.below(4)];
  if (r.below(5) != 0) { o.enc_speed = r.below(11); o.dec_speed = r.below(4) == 0 ? static_cast<int>(r.below(11)) : o.enc_speed; }
  static const int bias[] = {1, 2, 7, 8, 10, 11, 14, 16, 21, 22, 24, 30};
  for (size_t a = 0; a < g.atts.size(); ++a) {
    int q = -1;
    if (allow_quant && g.atts[a].dt == draco::DT_FLOAT32 && r.below(3) != 0) q = r.below(3) == 0 ? static_cast<int>(r.range(1, 30)) : bias[r.below(12)];
    if (g.atts[a].dt != draco::DT_FLOAT32 && r.below(6) == 0) q = bias[r.below(12)];  // ignored by the integer coder
    o.qbits.push_back(q);
    int p = -100;
    if (r.below(3) == 0) {
      const int cands[] = {draco::PREDICTION_NONE, draco::PREDICTION_DIFFERENCE, draco::MESH_PREDICTION_PARALLELOGRAM, draco::MESH_PREDICTION_CONSTRAINED_MULTI_PARALLELOGRAM,
                           draco::MESH_PREDICTION_TEX_COORDS_PORTABLE, draco::MESH_PREDICTION_GEOMETRIC_NORMAL};
      p = cands[r.below(6)];
    }
    o.pred.push_back(p);
  }
  o.builtin = static_cast<int>(r.range(-1, 1));
  if (r.below(4) != 0) o.builtin = -1;
  o.split_on_seams = r.below(3) == 0 ? static_cast<int>(r.below(2)) : -1;
  o.track = true;
  return o;
}

// The constrained multi-parallelogram encoder keeps an entropy tracker whose table is
// O(largest residual symbol): with residuals of ~30 bits one encode transiently needs
// several GiB (not a listed property; see DESIGN "Changes after round 0"). Volume workloads
// therefore keep that scheme away from attributes whose integer image exceeds 18 bits.
inline void AvoidHugeEntropyTables(const Geo &g, EncOpts *o) {
  bool big = false;
  for (size_t a = 0; a < g.atts.size(); ++a) {
    const Attr &at = g.atts[a];
    if (at.dt == draco::DT_FLOAT32) { if (EffectiveQBits(g, *o, static_cast<int>(a)) > 18) big = true; if (a < o->explicit_q.size() && o->explicit_q[a].bits > 18) big = true; continue; }
    const int len = vf::TypeBytes(at.dt);
    if (len < 4) continue;
    for (size_t i = 0; i < at.nvals * at.nc && !big; ++i) { int32_t v; memcpy(&v, at.data.data() + i * 4, 4); if (v > (1 << 18) || v < -(1 << 18)) big = true; }
  }
#if defined(__SANITIZE_ADDRESS__)
  // Sanitizer builds only: the tex-coord portable predictor squares (2*pos_bits+uv_bits)-bit quantities in int64
  // and overflows (signed overflow on both sides, results agree) from about 2*pos+uv > 50 bits. That is recorded as a
  // known C02 finding (decoder-side UB on a valid stream) and kept out of the other properties' sanitizer slices.
  {
    bool has_uv = false, big_int_uv = false;
    for (size_t a = 0; a < g.atts.size(); ++a) if (g.atts[a].type == draco::GeometryAttribute::TEX_COORD && g.atts[a].nc == 2) {
      has_uv = true;
      const Attr &at = g.atts[a];
      if (at.dt != draco::DT_FLOAT32 && vf::TypeBytes(at.dt) == 4) big_int_uv = true;
    }
    if (big_int_uv) {
      // integer texture coordinates of up to 30 bits: keep the tex-coord predictor off (speed >= 4, not forced)
      if (o->enc_speed < 4) { o->enc_speed = 4; if (o->dec_speed < 0) o->dec_speed = 4; }
      for (auto &p : o->pred) if (p == draco::MESH_PREDICTION_TEX_COORDS_PORTABLE) p = -100;
    }
    if (has_uv) for (size_t a = 0; a < g.atts.size(); ++a) {
      if ((g.atts[a].type == draco::GeometryAttribute::TEX_COORD || g.atts[a].type == draco::GeometryAttribute::POSITION) && o->qbits[a] > 16) o->qbits[a] = 16;
      if (a < o->explicit_q.size() && o->explicit_q[a].bits > 16 && (g.atts[a].type == draco::GeometryAttribute::TEX_COORD || g.atts[a].type == draco::GeometryAttribute::POSITION)) o->explicit_q[a].bits = 16;
    }
  }
#endif
  if (!big) return;
  if (o->enc_speed >= 0 && std::max(o->enc_speed, o->dec_speed) < 2) { o->enc_speed = std::max(o->enc_speed, 2); }
  for (auto &p : o->pred) if (p == draco::MESH_PREDICTION_CONSTRAINED_MULTI_PARALLELOGRAM) p = draco::MESH_PREDICTION_PARALLELOGRAM;
}

struct EncResult {
  draco::Status status;
  std::string bytes;
  size_t num_points = 0, num_faces = 0;
  int pred_rejected = 0;  // SetAttributePredictionScheme refusals (legal)
};

template <class EncT>
inline void ApplyCommon(EncT &e, const EncOpts &o) {
  if (o.enc_speed >= 0) e.SetSpeedOptions(o.enc_speed, o.dec_speed);
  if (o.method >= 0) e.SetEncodingMethod(o.method);
  if (o.eb_method >= 0) e.options().SetGlobalInt("edgebreaker_method", o.eb_method);
  if (o.split_on_seams >= 0) e.options().SetGlobalBool("split_mesh_on_seams", o.split_on_seams != 0);
  if (o.compress_connectivity >= 0) e.options().SetGlobalBool("compress_connectivity", o.compress_connectivity != 0);
  e.SetTrackEncodedProperties(o.track);
}

inline void ConfigureExpert(draco::ExpertEncoder *e, const Geo &g, const EncOpts &o, int *pred_rejected = nullptr) {
  ApplyCommon(*e, o);
  if (o.builtin >= 0) e->SetUseBuiltInAttributeCompression(o.builtin != 0);
  // Per-attribute options are keyed by attribute id, so the order of the calls must not matter: it is varied
  // (ascending, descending, rotated) as a deterministic function of the options themselves.
  const size_t n = g.atts.size();
  int64_t h = static_cast<int64_t>(n) + o.enc_speed * 7 + o.dec_speed * 3;
  for (size_t a = 0; a < n; ++a) h += (o.qbits[a] + 101) * static_cast<int64_t>(a + 1) + (o.pred[a] + 101);
  const int mode = static_cast<int>(((h % 3) + 3) % 3);
  for (size_t i = 0; i < n; ++i) {
    const size_t a = mode == 0 ? i : mode == 1 ? n - 1 - i : (i + 1) % n;
    if (a < o.explicit_q.size() && o.explicit_q[a].bits > 0) e->SetAttributeExplicitQuantization(static_cast<int>(a), o.explicit_q[a].bits, static_cast<int>(o.explicit_q[a].origin.size()), o.explicit_q[a].origin.data(), o.explicit_q[a].range);
    else if (o.qbits[a] > 0) e->SetAttributeQuantization(static_cast<int>(a), o.qbits[a]);
    if (o.pred[a] != -100) { if (!e->SetAttributePredictionScheme(static_cast<int>(a), o.pred[a]).ok() && pred_rejected) ++*pred_rejected; }
  }
}
inline void ConfigureBasic(draco::Encoder *e, const Geo &g, const EncOpts &o, int *pred_rejected = nullptr) {
  ApplyCommon(*e, o);
  for (size_t a = 0; a < g.atts.size(); ++a) {
    if (a < o.explicit_q.size() && o.explicit_q[a].bits > 0) e->SetAttributeExplicitQuantization(g.atts[a].type, o.explicit_q[a].bits, static_cast<int>(o.explicit_q[a].origin.size()), o.explicit_q[a].origin.data(), o.explicit_q[a].range);
    else if (o.qbits[a] > 0) e->SetAttributeQuantization(g.atts[a].type, o.qbits[a]);
    if (o.pred[a] != -100) { if (!e->SetAttributePredictionScheme(g.atts[a].type, o.pred[a]).ok() && pred_rejected) ++*pred_rejected; }
  }
}

inline EncResult Encode(const Geo &g, const draco::PointCloud &pc, const draco::Mesh *mesh, const EncOpts &o) {
  EncResult res;
  draco::EncoderBuffer eb;
  if (o.expert) {
    std::unique_ptr<draco::ExpertEncoder> e(mesh ? new draco::ExpertEncoder(*mesh) : new draco::ExpertEncoder(pc));
    ConfigureExpert(e.get(), g, o, &res.pred_rejected);
    res.status = e->EncodeToBuffer(&eb);
    res.num_points = e->num_encoded_points();
    res.num_faces = e->num_encoded_faces();
  } else {
    draco::Encoder e;
    ConfigureBasic(&e, g, o, &res.pred_rejected);
    if (o.history) {
      // An Encoder object may serve several geometries: an earlier encode (result ignored) must leave nothing behind.
      draco::Mesh hm;
      draco::PointCloud hp;
      draco::PointCloud *h = o.history == 1 ? &hm : &hp;
      h->set_num_points(4);
      draco::GeometryAttribute ga;
      ga.Init(draco::GeometryAttribute::POSITION, nullptr, 3, draco::DT_FLOAT32, false, 12, 0);
      const int aid = h->AddAttribute(ga, true, 4);
      const float hv[4][3] = {{0, 0, 0}, {1, 0, 0}, {0, 1, 0}, {1, 1, 0.5f}};
      for (int i = 0; i < 4; ++i) h->attribute(aid)->SetAttributeValue(draco::AttributeValueIndex(i), hv[i]);
      if (o.history == 1) { draco::Mesh::Face f0, f1; f0[0] = draco::PointIndex(0); f0[1] = draco::PointIndex(1); f0[2] = draco::PointIndex(2); f1[0] = draco::PointIndex(2); f1[1] = draco::PointIndex(1); f1[2] = draco::PointIndex(3); hm.AddFace(f0); hm.AddFace(f1); }
      draco::EncoderBuffer junk;
      if (o.history == 1) (void)e.EncodeMeshToBuffer(hm, &junk); else (void)e.EncodePointCloudToBuffer(hp, &junk);
    }
    res.status = mesh ? e.EncodeMeshToBuffer(*mesh, &eb) : e.EncodePointCloudToBuffer(pc, &eb);
    res.num_points = e.num_encoded_points();
    res.num_faces = e.num_encoded_faces();
  }
  if (res.status.ok()) res.bytes.assign(eb.data(), eb.size());
  return res;
}

struct DecResult {
  draco::Status status;
  std::unique_ptr<draco::PointCloud> pc;  // Mesh if is_mesh
  draco::Mesh *mesh = nullptr;
  int64_t remaining = -1;
};

inline DecResult Decode(const char *data, size_t size, const std::vector<draco::GeometryAttribute::Type> &skip = {}) {
  DecResult d;
  draco::DecoderBuffer db;
  db.Init(data, size);
  draco::Decoder dec;
  for (auto t : skip) dec.SetSkipAttributeTransform(t);
  // The public decoding entry points are interchangeable; which one is used is a deterministic function of the
  // stream: (0) type query + Decode*FromBuffer, (1) Decode*FromBuffer without a preceding type query (type taken from
  // the header byte), (2) DecodeBufferToGeometry into a caller-provided object.
  int mode = size >= 11 ? static_cast<int>((size + static_cast<uint8_t>(data[size / 2]) + static_cast<uint8_t>(data[size - 1])) % 3) : 0;
  draco::EncodedGeometryType gt = draco::INVALID_GEOMETRY_TYPE;
  if (mode != 0) { const uint8_t tb = static_cast<uint8_t>(data[7]); if (tb == 0) gt = draco::POINT_CLOUD; else if (tb == 1) gt = draco::TRIANGULAR_MESH; else mode = 0; }
  if (mode == 0) {
    auto type = draco::Decoder::GetEncodedGeometryType(&db);
    if (!type.ok()) { d.status = type.status(); return d; }
    gt = type.value();
  }
  if (gt == draco::TRIANGULAR_MESH) {
    if (mode == 2) {
      std::unique_ptr<draco::Mesh> m(new draco::Mesh());
      d.status = dec.DecodeBufferToGeometry(&db, m.get());
      if (d.status.ok()) { d.mesh = m.get(); d.pc = std::move(m); }
    } else {
      auto r = dec.DecodeMeshFromBuffer(&db);
      d.status = r.status();
      if (r.ok()) { std::unique_ptr<draco::Mesh> m = std::move(r).value(); d.mesh = m.get(); d.pc = std::move(m); }
    }
  } else {
    if (mode == 2) {
      std::unique_ptr<draco::PointCloud> p(new draco::PointCloud());
      d.status = dec.DecodeBufferToGeometry(&db, p.get());
      if (d.status.ok()) d.pc = std::move(p);
    } else {
      auto r = dec.DecodePointCloudFromBuffer(&db);
      d.status = r.status();
      if (r.ok()) d.pc = std::move(r).value();
    }
  }
  d.remaining = db.remaining_size();
  return d;
}

}  // namespace vf
#endif
