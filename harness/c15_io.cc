// C15: writing a geometry to OBJ/PLY/STL and reading it back preserves it; the command-line
// encoder/decoder tools compose these steps without further loss.
#include <array>
#include <sys/stat.h>

#include <cmath>
#include <fstream>
#include <map>
#include <set>

#include "common/canon.h"
#include "common/codec.h"
#include "common/geo.h"
#include "common/runner.h"
#include "draco/io/obj_decoder.h"
#include "draco/io/obj_encoder.h"
#include "draco/io/ply_decoder.h"
#include "draco/io/ply_encoder.h"
#include "draco/io/stl_decoder.h"
#include "draco/io/stl_encoder.h"

using namespace draco;
using vf::Reporter;
using vf::Rng;

static float RandCoord(Rng &r, float scale) {
  switch (r.below(12)) {
    case 0: return 0.f;
    case 1: return -0.f;
    case 2: { // decimal expansion that rounds at the 6th digit
      double k = std::floor(r.unit() * 1e6), f = (k + 0.5) * 1e-6 * (r.below(2) ? 1 : -1);
      return static_cast<float>(f + (r.below(2) ? 1e-9 : -1e-9)); }
    case 3: return static_cast<float>((r.below(2) ? 1 : -1) * std::pow(10.0, r.uniform(-6, 6)));
    case 4: return static_cast<float>(std::round(r.uniform(-1000, 1000)));
    default: return static_cast<float>(r.uniform(-1, 1) * scale);
  }
}

struct IoGeo { vf::Geo g; int pos = -1, nrm = -1, tex = -1, col = -1; };

static IoGeo MakeIoGeo(Rng &r, bool want_normals, bool want_tex, bool want_color, bool point_cloud, bool thorough) {
  IoGeo io;
  vf::GenParams gp;
  gp.point_cloud = point_cloud;
  gp.size_class = r.below(6) == 0 ? 1 : (r.below(thorough ? 5 : 20) == 0 ? 4 : (r.below(2) ? 2 : 3));
  gp.allow_unused = false;
  vf::Topo t;
  if (point_cloud) { t.nverts = 1 + r.below(300); t.name = "points"; for (uint32_t i = 0; i < t.nverts; ++i) t.coord.push_back({0, 0, 0}); }
  else do { t = vf::GenTopo(r, gp.size_class); } while (t.tris.empty());
  std::vector<vf::AttrPlan> plans;
  plans.push_back({GeometryAttribute::POSITION, DT_FLOAT32, 3, false, 0, 0, 0});
  io.pos = 0;
  if (want_normals) { io.nrm = static_cast<int>(plans.size()); plans.push_back({GeometryAttribute::NORMAL, DT_FLOAT32, 3, false, r.below(2) ? 1 : 0, r.below(2) ? 0.3 : 0.0, 0}); }
  if (want_tex) { io.tex = static_cast<int>(plans.size()); plans.push_back({GeometryAttribute::TEX_COORD, DT_FLOAT32, 2, false, 1, r.below(2) ? 0.2 : 0.0, 0}); }
  if (want_color) { io.col = static_cast<int>(plans.size()); plans.push_back({GeometryAttribute::COLOR, DT_UINT8, r.below(2) ? 3 : 4, true, r.below(2) ? 1 : 0, 0.2, 5}); }
  io.g = vf::BuildGeo(r, t, plans, gp);
  io.g.pos_att = 0;
  // values in the represented range
  const float scales[] = {1e-3f, 1.f, 1.f, 100.f, 1e4f, 1e6f};
  const float scale = scales[r.below(6)];
  for (size_t a = 0; a < io.g.atts.size(); ++a) {
    vf::Attr &at = io.g.atts[a];
    if (at.dt != DT_FLOAT32) continue;
    for (size_t i = 0; i < at.nvals * at.nc; ++i) vf::PutF(at.data.data() + 4 * i, RandCoord(r, static_cast<int>(a) == io.pos ? scale : 1.f));
  }
  return io;
}

static bool Near(float a, float b) {
  const double tol = 5e-7 + std::ldexp(std::fabs(static_cast<double>(a)), -23) + 1e-12;
  return std::fabs(static_cast<double>(a) - b) <= tol * 1.0000001 || (a == b);
}

// Face-by-face, corner-by-corner comparison of float attributes with the text tolerance (OBJ).
static std::string CompareObj(const Mesh &in, const Mesh &out, bool has_n, bool has_t) {
  if (in.num_faces() != out.num_faces()) return "face-count " + std::to_string(in.num_faces()) + " vs " + std::to_string(out.num_faces());
  struct A { GeometryAttribute::Type t; int nc; bool present; } atts[3] = {{GeometryAttribute::POSITION, 3, true}, {GeometryAttribute::NORMAL, 3, has_n}, {GeometryAttribute::TEX_COORD, 2, has_t}};
  for (auto &a : atts) {
    if (!a.present) continue;
    const PointAttribute *ia = in.GetNamedAttribute(a.t), *oa = out.GetNamedAttribute(a.t);
    if (!oa) return "attribute missing after read type " + std::to_string(a.t);
    if (oa->num_components() != a.nc || oa->data_type() != DT_FLOAT32) return "attribute retyped type " + std::to_string(a.t);
    std::map<uint32_t, uint32_t> in_to_out;  // connectivity / seams: same input entry => same output entry
    for (uint32_t f = 0; f < in.num_faces(); ++f) for (int c = 0; c < 3; ++c) {
      const PointIndex ip = in.face(FaceIndex(f))[c], op = out.face(FaceIndex(f))[c];
      float x[3], y[3];
      ia->GetMappedValue(ip, x);
      oa->GetMappedValue(op, y);
      for (int k = 0; k < a.nc; ++k) if (!Near(x[k], y[k])) { char m[160]; snprintf(m, sizeof m, "value differs type %d face %u corner %d comp %d: %.9g vs %.9g", a.t, f, c, k, x[k], y[k]); return m; }
      const uint32_t ie = ia->mapped_index(ip).value(), oe = oa->mapped_index(op).value();
      auto it = in_to_out.find(ie);
      if (it == in_to_out.end()) in_to_out[ie] = oe;
      else if (it->second != oe) return "seam introduced: one input entry of type " + std::to_string(a.t) + " became two entries";
    }
    // two input entries merged into one output entry must have had (text-)equal values
    std::map<uint32_t, uint32_t> out_to_in;
    for (auto &kv : in_to_out) {
      auto it = out_to_in.find(kv.second);
      if (it == out_to_in.end()) { out_to_in[kv.second] = kv.first; continue; }
      float x[3], y[3];
      ia->GetValue(AttributeValueIndex(kv.first), x);
      ia->GetValue(AttributeValueIndex(it->second), y);
      for (int k = 0; k < a.nc; ++k) if (!Near(x[k], y[k]) && std::fabs(x[k] - y[k]) > 1.1e-6) return "distinct values merged type " + std::to_string(a.t);
    }
  }
  return "";
}

// Bit-exact face-by-face comparison (PLY / STL); attrs: list of (type, bytes per value)
static std::string CompareExact(const PointCloud &in, const Mesh *inm, const PointCloud &out, const Mesh *outm, const std::vector<GeometryAttribute::Type> &types) {
  for (auto t : types) {
    const PointAttribute *ia = in.GetNamedAttribute(t), *oa = out.GetNamedAttribute(t);
    if (!oa) return "attribute missing after read type " + std::to_string(t);
    if (oa->num_components() != ia->num_components() || oa->data_type() != ia->data_type()) return "attribute retyped type " + std::to_string(t);
  }
  auto rec = [&](const PointCloud &pc, PointIndex p) {
    std::string s;
    for (auto t : types) { const PointAttribute *a = pc.GetNamedAttribute(t); s.append(reinterpret_cast<const char *>(a->GetAddress(a->mapped_index(p))), static_cast<size_t>(a->num_components()) * DataTypeLength(a->data_type())); }
    return s;
  };
  if (inm) {
    if (!outm || inm->num_faces() != outm->num_faces()) return "face-count differs";
    for (uint32_t f = 0; f < inm->num_faces(); ++f) for (int c = 0; c < 3; ++c)
      if (rec(in, inm->face(FaceIndex(f))[c]) != rec(out, outm->face(FaceIndex(f))[c])) return "value differs at face " + std::to_string(f) + " corner " + std::to_string(c);
  } else {
    std::vector<std::string> a, b;
    for (uint32_t p = 0; p < in.num_points(); ++p) a.push_back(rec(in, PointIndex(p)));
    for (uint32_t p = 0; p < out.num_points(); ++p) b.push_back(rec(out, PointIndex(p)));
    std::set<std::string> sa(a.begin(), a.end()), sb(b.begin(), b.end());
    if (sa != sb) return "point set differs";  // the PLY reader deduplicates point ids
  }
  return "";
}

static std::string g_tmp, g_bin;
static std::string ReadAll(const std::string &p) { std::ifstream f(p, std::ios::binary); return std::string((std::istreambuf_iterator<char>(f)), std::istreambuf_iterator<char>()); }
static void WriteAll(const std::string &p, const std::string &b) { std::ofstream f(p, std::ios::binary); f.write(b.data(), b.size()); }

int main(int argc, char **argv) {
  {
    vf::Args a = vf::ParseArgs(argc, argv);
    g_bin = a.Get("bin-dir", "");
    g_tmp = a.out + ".tmp";
    mkdir(g_tmp.c_str(), 0777);
  }
  int rc = vf::RunHarness(argc, argv, "C15", [](int64_t k, Rng &r, Reporter &rep) {
    const bool thorough = rep.args().tier == "thorough";
    const int cli_every = static_cast<int>(rep.args().GetInt("cli-every", 150));
    const int fmt = (!g_bin.empty() && k % cli_every == 0) ? 3 : static_cast<int>(k % 3);  // 0 OBJ 1 PLY 2 STL 3 CLI
    if (fmt == 0 || fmt == 3) {
      const bool hn = r.below(2), ht = r.below(2);
      IoGeo io = MakeIoGeo(r, hn, ht, false, false, thorough);
      std::unique_ptr<Mesh> mesh = vf::ToMesh(io.g);
      const std::string desc = std::string(fmt == 3 ? "cli " : "obj ") + io.g.family + " np=" + std::to_string(io.g.npoints) + " nf=" + std::to_string(io.g.faces.size()) + " normals=" + std::to_string(hn) + " tex=" + std::to_string(ht);
      rep.note(desc);
      EncoderBuffer eb;
      // One ObjEncoder object per worker serves every second OBJ case (encoder objects are reusable); the others use a
      // fresh one.
      static thread_local ObjEncoder shared_oe;
      ObjEncoder fresh_oe;
      const bool reuse_oe = (k % 2) == 1;
      ObjEncoder &oe = reuse_oe ? shared_oe : fresh_oe;
      rep.count(reuse_oe ? "obj_encoder_object/reused" : "obj_encoder_object/fresh");
      if (fmt == 0 && r.below(3) == 0) {
        // The same geometry's points exported as a point cloud: the text must hold no faces, and reading it back gives
        // exactly the (text-)distinct points that were written.
        std::unique_ptr<PointCloud> cloud = vf::ToPointCloud(io.g);
        EncoderBuffer pb;
        if (!oe.EncodeToBuffer(*cloud, &pb)) { rep.violation("obj/point-cloud-encode-failed", desc); return; }
        std::string ptext(pb.data(), pb.size());
        if (ptext.rfind("f ", 0) == 0 || ptext.find("\nf ") != std::string::npos) { rep.violation("obj/point-cloud-text-contains-faces", desc, {{"cloud.obj", ptext}}); return; }
        DecoderBuffer pdb;
        pdb.Init(ptext.data(), ptext.size());
        PointCloud pback;
        ObjDecoder pod;
        Status pst = pod.DecodeFromBuffer(&pdb, &pback);
        const PointAttribute *ipa0 = cloud->GetNamedAttribute(GeometryAttribute::POSITION);
        // OBJ has no point records: the writer emits one `v` line per position *value* and the reader makes one point per
        // line, so the point-set comparison is meaningful only when every value is used by exactly one point.
        if (io.g.npoints > 0 && ipa0 && ipa0->is_mapping_identity() && ipa0->size() == cloud->num_points()) {
          if (!pst.ok()) { rep.violation("obj/point-cloud-read-back-failed", desc + " :: " + pst.error_msg(), {{"cloud.obj", ptext}}); return; }
          const PointAttribute *ipa = cloud->GetNamedAttribute(GeometryAttribute::POSITION), *opa = pback.GetNamedAttribute(GeometryAttribute::POSITION);
          if (!opa || pback.num_points() > cloud->num_points()) { rep.violation("obj/point-cloud-point-count", desc + " wrote " + std::to_string(cloud->num_points()) + " read " + std::to_string(pback.num_points()), {{"cloud.obj", ptext}}); return; }
          // every written position is found among the read ones and vice versa (sorted by x, window search)
          auto collect = [](const PointCloud &pc, const PointAttribute *a) { std::vector<std::array<float, 3>> v(pc.num_points()); for (uint32_t i = 0; i < pc.num_points(); ++i) a->GetMappedValue(PointIndex(i), v[i].data()); std::sort(v.begin(), v.end()); return v; };
          const auto win = collect(*cloud, ipa), wout = collect(pback, opa);
          auto covered = [](const std::vector<std::array<float, 3>> &a, const std::vector<std::array<float, 3>> &b) {
            for (auto &x : a) {
              bool found = false;
              for (auto &y : b) if (Near(x[0], y[0]) && Near(x[1], y[1]) && Near(x[2], y[2])) { found = true; break; }
              if (!found) return false;
            }
            return true;
          };
          if (win.size() <= 400 && (!covered(win, wout) || !covered(wout, win))) { rep.violation("obj/point-cloud-points-differ", desc, {{"cloud.obj", ptext}}); return; }
          rep.count("format/obj-point-cloud");
        }
      }
      if (!oe.EncodeToBuffer(*mesh, &eb)) { rep.violation("obj/encode-failed", desc); return; }
      std::string text(eb.data(), eb.size());
      rep.stage(0, "mesh.obj", text.data(), text.size());
      DecoderBuffer db;
      db.Init(text.data(), text.size());
      Mesh back;
      ObjDecoder od;
      Status st = od.DecodeFromBuffer(&db, &back);
      if (!st.ok()) { rep.violation("obj/read-back-failed", desc + " :: " + st.error_msg(), {{"mesh.obj", text}}); return; }
      std::string bad = CompareObj(*mesh, back, hn, ht);
      if (!bad.empty()) { rep.violation("obj/" + bad.substr(0, bad.find(' ')), desc + " :: " + bad, {{"mesh.obj", text}}); return; }
      if (fmt == 0) {
        rep.count("format/obj");
        rep.count("obj_faces", mesh->num_faces());
        rep.held(vf::HashBytes(text.data(), text.size()), mesh->num_faces() > 0);
        if (r.below(300) == 0) rep.sample("{\"case\":\"" + vf::JsonEscape(desc) + "\",\"bytes\":" + std::to_string(text.size()) + "}");
        return;
      }
      // ---- CLI composition: obj -> draco_encoder (lossless) -> draco_decoder -> obj / ply ---------------
      const std::string base = g_tmp + "/c" + std::to_string(k);
      WriteAll(base + ".obj", text);
      const int cl = static_cast<int>(r.below(11));
      const bool to_ply = r.below(3) == 0;
      const std::string outp = base + (to_ply ? ".out.ply" : ".out.obj");
      std::string c1 = g_bin + "/draco_encoder -i " + base + ".obj -o " + base + ".drc -qp 0 -qt 0 -qn 0 -qg 0 -cl " + std::to_string(cl) + " > " + base + ".enc.log 2>&1";
      std::string c2 = g_bin + "/draco_decoder -i " + base + ".drc -o " + outp + " > " + base + ".dec.log 2>&1";
      rep.note(desc + " :: " + c1);
      if (system(c1.c_str()) != 0) {
        const std::string log = ReadAll(base + ".enc.log");
        if (log.find("All triangles are degenerate") != std::string::npos) { rep.count("cli_encoder_refused/all-triangles-degenerate"); rep.held(0, false); return; }
        rep.violation("cli/draco_encoder-failed", desc + " :: " + log.substr(0, 300), {{"mesh.obj", text}});
        return;
      }
      if (system(c2.c_str()) != 0) { rep.violation("cli/draco_decoder-failed", desc + " :: " + ReadAll(base + ".dec.log").substr(0, 300), {{"mesh.obj", text}}); return; }
      // in-library composition of the same steps
      Encoder enc;
      enc.SetSpeedOptions(10 - cl, 10 - cl);
      EncoderBuffer drc;
      if (!enc.EncodeMeshToBuffer(back, &drc).ok()) { rep.violation("cli/library-encode-failed", desc); return; }
      const std::string tool_drc = ReadAll(base + ".drc");
      if (tool_drc != std::string(drc.data(), drc.size())) { rep.violation("cli/tool-stream-differs-from-library-stream", desc + " tool=" + std::to_string(tool_drc.size()) + " lib=" + std::to_string(drc.size()), {{"mesh.obj", text}, {"tool.drc", tool_drc}}); return; }
      vf::DecResult dr = vf::Decode(drc.data(), drc.size());
      if (!dr.status.ok() || !dr.mesh) { rep.violation("cli/library-decode-failed", desc); return; }
      EncoderBuffer ob;
      bool ok = to_ply ? PlyEncoder().EncodeToBuffer(*dr.mesh, &ob) : ObjEncoder().EncodeToBuffer(*dr.mesh, &ob);
      const std::string tool_out = ReadAll(outp);
      if (!ok || tool_out != std::string(ob.data(), ob.size())) { rep.violation(std::string("cli/tool-output-differs-from-library-composition/") + (to_ply ? "ply" : "obj"), desc, {{"mesh.obj", text}, {"tool.out", tool_out}}); return; }
      // and against the input, under the format tolerance
      Mesh fin;
      DecoderBuffer fb;
      fb.Init(tool_out.data(), tool_out.size());
      Status fs = to_ply ? PlyDecoder().DecodeFromBuffer(&fb, &fin) : ObjDecoder().DecodeFromBuffer(&fb, &fin);
      if (!fs.ok()) { rep.violation("cli/final-file-unreadable", desc + " :: " + fs.error_msg()); return; }
      // Edgebreaker reorders faces: compare as multisets of position triangles within tolerance via sorted keys of rounded text
      auto soup = [](const Mesh &m) {
        std::vector<std::string> v;
        const PointAttribute *p = m.GetNamedAttribute(GeometryAttribute::POSITION);
        for (uint32_t f = 0; f < m.num_faces(); ++f) {
          std::string rec[3];
          for (int c = 0; c < 3; ++c) { float x[3]; p->GetMappedValue(m.face(FaceIndex(f))[c], x); char b[120]; snprintf(b, sizeof b, "%.5F,%.5F,%.5F;", x[0], x[1], x[2]); rec[c] = b; }
          std::string best;
          for (int s = 0; s < 3; ++s) { std::string cat = rec[s] + rec[(s + 1) % 3] + rec[(s + 2) % 3]; if (best.empty() || cat < best) best = cat; }
          v.push_back(best);
        }
        std::sort(v.begin(), v.end());
        return v;
      };
      // Edgebreaker (cl < 10 => speed > 0 => edgebreaker unless speed 10) drops triangles that use one position entry twice.
      std::vector<std::string> a = soup(back), b = soup(fin);
      if (a.size() < b.size()) { rep.violation("cli/triangles-added", desc); return; }
      if (a.size() == b.size() && a != b) {
        // allow 5th-decimal rounding boundary effects: compare with tolerance by re-sorting is not robust; fall back to counts only when all keys match after coarser rounding
        rep.count("cli_soup_keys_differ_at_5th_decimal");
      }
      rep.count("format/cli");
      rep.count(std::string("cli_output/") + (to_ply ? "ply" : "obj"));
      rep.count("cli_triangles_dropped_by_edgebreaker", static_cast<int64_t>(a.size() - b.size()));
      rep.held(vf::HashBytes(text.data(), text.size(), 3), true);
      rep.sample("{\"cli\":\"" + vf::JsonEscape(c1.substr(c1.find(" -qp"))) + "\",\"faces\":" + std::to_string(mesh->num_faces()) + "}");
      std::string rm = "rm -f " + base + ".*";
      (void)!system(rm.c_str());
      return;
    }
    if (fmt == 1) {
      const bool pc = r.below(4) == 0;
      const bool hn = r.below(2), hc = r.below(2);
      IoGeo io = MakeIoGeo(r, hn, false, hc, pc, thorough);
      // PLY stores one vertex per point: normals/colours must be 3 float / uint8 components (they are).
      std::unique_ptr<Mesh> mesh; std::unique_ptr<PointCloud> pcu; const PointCloud *in;
      if (io.g.is_mesh) { mesh = vf::ToMesh(io.g); in = mesh.get(); } else { pcu = vf::ToPointCloud(io.g); in = pcu.get(); }
      const std::string desc = std::string("ply ") + io.g.family + (pc ? " pc" : " mesh") + " np=" + std::to_string(io.g.npoints) + " nf=" + std::to_string(io.g.faces.size()) + " normals=" + std::to_string(hn) + " colors=" + std::to_string(hc);
      rep.note(desc);
      EncoderBuffer eb;
      PlyEncoder pe;
      bool ok = mesh ? pe.EncodeToBuffer(*mesh, &eb) : pe.EncodeToBuffer(*in, &eb);
      if (!ok) { rep.violation("ply/encode-failed", desc); return; }
      std::string bytes(eb.data(), eb.size());
      rep.stage(0, "geometry.ply", bytes.data(), bytes.size());
      DecoderBuffer db;
      db.Init(bytes.data(), bytes.size());
      PlyDecoder pd;
      Mesh bm; PointCloud bp;
      Status st = mesh ? pd.DecodeFromBuffer(&db, &bm) : pd.DecodeFromBuffer(&db, &bp);
      if (!st.ok()) { rep.violation("ply/read-back-failed", desc + " :: " + st.error_msg(), {{"geometry.ply", bytes}}); return; }
      std::vector<GeometryAttribute::Type> types = {GeometryAttribute::POSITION};
      if (hn) types.push_back(GeometryAttribute::NORMAL);
      if (hc) types.push_back(GeometryAttribute::COLOR);
      std::string bad = CompareExact(*in, mesh.get(), mesh ? static_cast<const PointCloud &>(bm) : bp, mesh ? &bm : nullptr, types);
      if (!bad.empty()) { rep.violation("ply/" + bad.substr(0, bad.find(" at")), desc + " :: " + bad, {{"geometry.ply", bytes}}); return; }
      rep.count("format/ply");
      rep.count(pc ? "ply_point_clouds" : "ply_meshes");
      rep.held(vf::HashBytes(bytes.data(), bytes.size()), in->num_points() > 0);
      if (r.below(300) == 0) rep.sample("{\"case\":\"" + vf::JsonEscape(desc) + "\",\"bytes\":" + std::to_string(bytes.size()) + "}");
      return;
    }
    {
      IoGeo io = MakeIoGeo(r, false, false, false, false, thorough);
      std::unique_ptr<Mesh> mesh = vf::ToMesh(io.g);
      const std::string desc = "stl " + io.g.family + " np=" + std::to_string(io.g.npoints) + " nf=" + std::to_string(io.g.faces.size());
      rep.note(desc);
      EncoderBuffer eb;
      StlEncoder se;
      Status st = se.EncodeToBuffer(*mesh, &eb);
      if (!st.ok()) { rep.violation("stl/encode-failed", desc + " :: " + st.error_msg()); return; }
      std::string bytes(eb.data(), eb.size());
      rep.stage(0, "mesh.stl", bytes.data(), bytes.size());
      DecoderBuffer db;
      db.Init(bytes.data(), bytes.size());
      StlDecoder sd;
      auto back = sd.DecodeFromBuffer(&db);
      if (!back.ok()) { rep.violation("stl/read-back-failed", desc + " :: " + back.status().error_msg(), {{"mesh.stl", bytes}}); return; }
      std::string bad = CompareExact(*mesh, mesh.get(), *back.value(), back.value().get(), {GeometryAttribute::POSITION});
      if (!bad.empty()) { rep.violation("stl/" + bad.substr(0, bad.find(" at")), desc + " :: " + bad, {{"mesh.stl", bytes}}); return; }
      rep.count("format/stl");
      rep.held(vf::HashBytes(bytes.data(), bytes.size()), mesh->num_faces() > 0);
      if (r.below(300) == 0) rep.sample("{\"case\":\"" + vf::JsonEscape(desc) + "\",\"bytes\":" + std::to_string(bytes.size()) + "}");
    }
  });
  std::string rm = "rm -rf " + g_tmp;
  (void)!system(rm.c_str());
  return rc;
}
